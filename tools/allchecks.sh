#!/bin/sh
# usage: tools/allchecks.sh quick|thorough seed...   — runs every claimed check at the given seeds, prints one line each
TIER="$1"; shift
cd /verif
for s in "$@"; do
  for p in $(python3 -c "import json;print(' '.join(c['property_id'] for c in json.load(open('MANIFEST.json'))['checks']))"); do
    OUT=$(VERIF_SEED=$s ./check $p $TIER 2>&1); CODE=$?
    echo "seed=$s $p exit=$CODE $(echo "$OUT" | grep -E "verdict=" | tail -1 | cut -c1-150)"
    if [ $CODE -ne 0 ]; then echo "$OUT" | grep -E "^VIOLATION|^INCONCLUSIVE|^  rule=" | head -5 | cut -c1-300; fi
  done
done
