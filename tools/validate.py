#!/usr/bin/env python3-vt
# validate MANIFEST.json and evidence files against the schemas
import json, sys, glob, jsonschema
ok = True
man = json.load(open('/verif/MANIFEST.json'))
try:
    jsonschema.validate(man, json.load(open('/root/.vp/MANIFEST.schema.json')))
    print("MANIFEST.json valid;", len(man['checks']), "checks,", len(man.get('not_applicable', [])), "not applicable")
except Exception as e:
    ok = False; print("MANIFEST invalid:", e)
sch = json.load(open('/root/.vp/EVIDENCE.schema.json'))
for f in sorted(glob.glob('/verif/evidence/*.json')):
    try:
        jsonschema.validate(json.load(open(f)), sch); print(f, "valid")
    except Exception as e:
        ok = False; print(f, "INVALID:", str(e)[:300])
props = [json.loads(l)['id'] for l in open('/verif/properties.jsonl')]
claimed = [c['property_id'] for c in man['checks']]
na = [c['property_id'] for c in man.get('not_applicable', [])]
for p in props:
    if (p in claimed) == (p in na):
        ok = False; print("property", p, "must be either claimed or not_applicable")
sys.exit(0 if ok else 1)
