#!/bin/sh
# usage: tools/seedimport.sh <property> <dir with patch.diff demo.rs meta.json> <round>
# stores a sub-agent's seeded change as seeded/<property>-<next free letter>, then confirms it with seedverify.sh
P="$1"; SRC="$2"; ROUND="$3"
cd /verif
for L in a b c d e f g h i j k; do [ -d "seeded/$P-$L" ] || break; done
ID="$P-$L"
[ -f "$SRC/patch.diff" ] && [ -f "$SRC/demo.rs" ] || { echo "$P: deliverables missing in $SRC"; exit 2; }
mkdir -p "seeded/$ID"; cp "$SRC/patch.diff" "$SRC/demo.rs" "seeded/$ID/"
python3 - "$SRC/meta.json" "seeded/$ID/meta.json" "$P" "$ROUND" <<'PY'
import json,sys
try: m=json.load(open(sys.argv[1]))
except Exception as e: m={"summary":"(meta.json of the agent unreadable: %s)"%e}
m["breaks_property"]=sys.argv[3]; m["round"]=int(sys.argv[4])
json.dump(m,open(sys.argv[2],"w"),indent=1)
PY
tools/seedverify.sh "$ID"
