#!/bin/sh
# usage: tools/seedrun.sh <seeded id> <property> [tier]  — applies the seeded change to /repo, runs the check, reverts.
ID="$1"; PROP="$2"; TIER="${3:-quick}"
cd /repo || exit 2
if [ -n "$(git status --porcelain --untracked-files=no)" ]; then echo "/repo not clean"; exit 2; fi
git apply "/verif/seeded/$ID/patch.diff" || { echo "$ID: patch does not apply"; exit 2; }
cd /verif
# the evidence directory describes the unchanged tree: a run against a modified tree must not overwrite it
SAVE=$(mktemp -d /tmp/verif-evidence.XXXXXX); cp evidence/*.json "$SAVE"/ 2>/dev/null
OUT=$(./check "$PROP" "$TIER" 2>&1); CODE=$?
cp "$SAVE"/*.json evidence/ 2>/dev/null; rm -rf "$SAVE"
git -C /repo checkout -- .
NV=$(echo "$OUT" | grep -c "^VIOLATION")
SIGS=$(echo "$OUT" | grep -o "sig=[^ ]*" | sort -u | head -4 | tr '\n' ' ')
echo "$ID vs $PROP $TIER: exit=$CODE violations=$NV $SIGS"
echo "$OUT" | grep -E "verdict=|INCONCLUSIVE" | head -3
