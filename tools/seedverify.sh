#!/bin/sh
# usage: tools/seedverify.sh <seeded dir name>   e.g. C03-a
# Confirms a seeded change in a scratch worktree outside /repo and /verif:
#   1. patch applies to /repo HEAD, 2. existing suite passes with it, 3. demo fails with it, 4. demo passes without it.
# Prints one summary line; removes the worktree and its build output afterwards.
ID="$1"
DIR=/verif/seeded/$ID
WT=/tmp/seedverify/$ID
export CARGO_NET_OFFLINE=true
rm -rf "$WT"; mkdir -p /tmp/seedverify
git -C /repo worktree add -q --detach "$WT" HEAD || { echo "$ID: worktree failed"; exit 2; }
cp /repo/Cargo.lock "$WT/Cargo.lock"
cd "$WT"
APPLY=ok
git apply "$DIR/patch.diff" 2>/dev/null || APPLY=fail
if [ "$APPLY" = fail ]; then echo "$ID: apply=FAIL"; cd /; git -C /repo worktree remove --force "$WT"; exit 1; fi
SUITE=$(cargo test --workspace --no-fail-fast --offline 2>&1 | grep -E "^test result" | awk '{p+=$4; f+=$6} END {print p" passed "f" failed"}')
mkdir -p autosar-data/tests; cp "$DIR/demo.rs" autosar-data/tests/seed_demo.rs
WITH=$(timeout 300 cargo test --offline -p autosar-data --test seed_demo 2>&1 | grep -E "^test result|error\[" | head -1)
[ -z "$WITH" ] && WITH="(no result: timeout/hang or build error)"
git checkout -q -- . 
WITHOUT=$(timeout 300 cargo test --offline -p autosar-data --test seed_demo 2>&1 | grep -E "^test result|error\[" | head -1)
echo "$ID: apply=$APPLY suite=[$SUITE] demo_with_patch=[$WITH] demo_without=[$WITHOUT]"
cd /; git -C /repo worktree remove --force "$WT"
