#!/usr/bin/env python3
# Regenerates /verif/MANIFEST.json from the table below. Run after adding or changing a check.
import json, subprocess

BUILT = {
    # property id -> True when the check exists and is claimed
    "C01": True, "C02": True, "C07": True, "C08": True, "C09": True, "C17": True,
    "C03": True, "C04": True, "C05": True, "C06": True, "C10": True, "C11": True, "C12": True, "C13": True, "C14": True, "C15": True, "C16": True,
    "C18": True, "C19": True, "C20": True,
}

HOOK_COMMITS = subprocess.run(
    ["git", "-C", "/repo", "log", "--format=%H %s", "--grep=^verif hooks:"],
    capture_output=True, text=True).stdout.strip().splitlines()

P = {
 "C01": dict(engine="DOC", technique="runtime monitor: independent XML reference reader vs loaded model + load/serialize fixed-point oracle on generated documents",
   text="Every generated document (whole-specification documents for all 21 versions, per-type micro documents with value classes, random trees with syntactic variation, lenient documents with injected defects) is read by an independent reference XML reader and compared with the loaded model; load-serialize-load-serialize must reach a fixed point. Held on the executions listed in the evidence. Thorough repeats the quick workload in an AddressSanitizer build. A share of the documents additionally goes through the file based pair: write() must put exactly the serialized text on disk and load_file() of that file must give the same model.",
   note="trusted: the specification tables (subject of C18/C19) for typing the reference tree; the harness's own XML reader/writer; comment/whitespace semantics as documented by the crate", ref="5/C01"),
 "C02": dict(engine="DOC", technique="runtime monitor: crash/panic/abort observer over hostile byte strings in child processes, error-line range oracle, check_buffer⊇load oracle; thorough adds the C02 oracle on short inputs under Miri and an AddressSanitizer rebuild repeating the quick workload",
   text="Exhaustive short strings over an XML token alphabet, structure-aware mutations of valid documents for all versions, random bytes and pathological nesting are pushed through load_buffer (strict, lenient) and check_buffer with a panic hook and process-exit monitor; every error/warning line is range-checked. A share of the inputs (all accepted ones, one in sixteen of the others) is also written to a scratch file: load_file must behave exactly like load_buffer on the file's bytes and check_file must accept every loadable file whose header lies within the 4096 bytes it reads.",
   note="stuck inputs are judged by a logical progress criterion, never by wall clock alone; deep nesting runs in child processes", ref="5/C02"),
 "C03": dict(engine="HIST", technique="runtime invariant monitor (tree shape, iterators agree, stale handles fail) after every call of generated API histories",
   text="After every call of seeded random histories (30-60 calls plus growth steps, 1-3 models, 1-4 files, incl. unsorted/partial/failing merges) the full tree-shape monitor walks the model and compares parent/position/model/iterators; stale handles are probed with every place-dependent request and must fail without changing the live model. Thorough adds a small API tour with the same monitors under Miri. The depth-first iterator is also driven with next_sibling() after selected elements (with and without depth limit) and compared with the pre-order listing with the skipped subtrees removed. In addition every history of 3 calls (thorough: 4, evenly spaced beyond the cap) over a fixed small universe with colliding names is executed with the same monitors after every call (bounded exhaustive part, see DESIGN 11.8).",
   note="histories are generated, not exhaustive beyond the stated bound; trusted: harness bookkeeping of live/stale handles by its own tree walk", ref="5/C03"),
 "C04": dict(engine="HIST", technique="runtime invariant monitor: path index ≡ tree-derived path map after every call",
   text="After every call and load, the path index observed through get_element_by_path/identifiable_elements/path is compared with a map derived independently from the tree (item names of identifiable ancestors), including negative probes of near-miss keys. Thorough repeats the quick workload in an AddressSanitizer build. In addition every history of 3 calls (thorough: 4, evenly spaced beyond the cap) over a fixed small universe with colliding names is executed with the same monitors after every call (bounded exhaustive part, see DESIGN 11.8).",
   note="expected map is derived from content()/item_name() only", ref="5/C04"),
 "C05": dict(engine="HIST", technique="runtime invariant monitor: reverse reference map (hook accessor + public API) ≡ tree-derived referrer multiset; check_references oracle",
   text="After every call the referrer lists (all keys via the read-only hook, plus get_references_to) are compared with the multiset of reference elements found by walking the tree; check_references and get_reference_target are compared with an independent resolution. Thorough repeats the quick workload in an AddressSanitizer build. In addition every history of 3 calls (thorough: 4, evenly spaced beyond the cap) over a fixed small universe with colliding names is executed with the same monitors after every call (bounded exhaustive part, see DESIGN 11.8).",
   note="uses hook verif_reference_origins(); dead weak entries are not judged", ref="5/C05"),
 "C06": dict(engine="HIST", technique="runtime pre/post monitor around rename/move: same-target-object oracle over the whole reference graph",
   text="Before each rename/move the harness resolves every reference to its target object with its own index; afterwards references that designated the renamed/moved element or its descendants must designate the same objects, all others keep their text. In addition every history of 3 calls (thorough: 4, evenly spaced beyond the cap) over a fixed small universe with colliding names is executed with the same monitors after every call (bounded exhaustive part, see DESIGN 11.8). Thorough repeats the quick workload in an AddressSanitizer build.",
   note="resolution by harness-side index, not by the crate's cache", ref="5/C06"),
 "C07": dict(engine="HIST", technique="runtime monitor: independent pairwise order model vs calc_element_insert_range/create_*_at/list_valid_sub_elements; serialize→lenient-load validator agreement",
   text="On API-built models over all element types and versions the insertion range, create-at success and allowed-list are compared with a pairwise reference order model; after every successful call every value must lie in its value space (length limit, pattern, enum item valid in the version, kind) and every identifiable element must have its SHORT-NAME; serialized output is re-validated by the lenient loader and compared with the original content. Quick visits every element type twice; types with unusual naming rules (identifiable with mixed content, identifiable in some versions only) get extra cases and a directed sequence of calls against their SHORT-NAME; a directed sweep copies every enumeration-typed element whose value exists in some versions only into a model of a version that lacks it. Thorough repeats the quick workload in an AddressSanitizer build.",
   note="order model uses find_common_group/multiplicity tables of the specification crate (trusted, subject of C18)", ref="5/C07"),
 "C08": dict(engine="DOC", technique="runtime differential monitor strict vs lenient; single-defect injection with table-derived expectation",
   text="Every input of the DOC corpora is loaded in both modes and the outcomes are compared (Ok⇔Ok+no warnings, first warning = strict error, same model); documents with exactly one injected, table-derived constraint violation must be rejected by strict loading. Thorough repeats the quick workload in an AddressSanitizer build. For every one of the 28 patterns of the specification, at element and attribute sites whose minimal document is accepted strictly with a member of the pattern, every non-member derived from the pattern's minimal automaton (all short words over one printable representative per byte class, every access string extended by one and two symbols) must be rejected by strict loading.",
   note="only injections whose illegality is computed from the specification tables are judged", ref="5/C08"),
 "C09": dict(engine="DOC", technique="runtime monitor: split-a-master generator, all load orders, union/attribution/projection oracles",
   text="Random master models are split at splittable points into 2-4 files with shuffled sibling order; every load order must give the master's content, order-independent merged content, per-file projections, and Element::file_membership() of every identifiable element must name exactly the files whose text contains it. Thorough repeats the quick workload in an AddressSanitizer build.",
   note="value conflicts between files are outside the precondition and not generated", ref="5/C09"),
 "C10": dict(engine="HIST", technique="runtime invariant monitor of file membership after every call; per-file text vs projection; remove_file delta oracle",
   text="After every call of file-set histories on 1-4 file models the membership invariants, per-file serialization vs projection and self-containedness are checked; remove_file must remove exactly the elements attributed to that file alone. Thorough repeats the quick workload in an AddressSanitizer build. In addition every history of 3 calls (thorough: 4, evenly spaced beyond the cap) over a fixed small universe with colliding names is executed with the same monitors after every call (bounded exhaustive part, see DESIGN 11.8).",
   note="per-file text is read back with the crate's own lenient loader and compared with the harness projection", ref="5/C10"),
 "C11": dict(engine="HIST", technique="runtime monitor: full-state snapshot before/after every failing call (hostile-argument generator)",
   text="A canonical snapshot (tree with values, files, membership, path index, referrer lists via hook) is taken before every call; whenever the call returns Err the snapshot afterwards must be identical. A directed sweep adds failing create calls for element types round-robin over the whole specification, in old and new versions, with every sub element name the type lists in any version. In addition every history of 3 calls (thorough: 4, evenly spaced beyond the cap) over a fixed small universe with colliding names is executed with the same monitors after every call (bounded exhaustive part, see DESIGN 11.8). Thorough repeats the quick workload in an AddressSanitizer build.",
   note="disk writes excluded; snapshot covers what the property calls observable", ref="5/C11"),
 "C12": dict(engine="HIST", technique="runtime monitor: catch_unwind + single-thread self-deadlock detector in the lock shim (+ Miri on a small API tour in thorough); process aborts on deep models are observed by the child processes of C02",
   text="The whole public API is driven with hostile arguments and stale/foreign handles on generated, loaded (lenient) and merged models; panics, aborts, unsatisfiable blocking lock requests by the only thread and ParentElementLocked results are violations.",
   note="a hang is decided logically by the lock monitor (request conflicts with the requester's own holdings), not by timeouts", ref="5/C12"),
 "C13": dict(engine="HIST", technique="runtime monitor: copy-vs-source structural diff, independent version filter, independence by snapshot",
   text="Around every deep copy the copy is compared structurally with its source (same version: identical up to the name suffix; other version: exactly the permitted parts), indexes are checked, and after duplicate() edits of one side must leave the other side's snapshot unchanged. Thorough repeats the quick workload in an AddressSanitizer build. In addition every history of 3 calls (thorough: 4, evenly spaced beyond the cap) over a fixed small universe with colliding names is executed with the same monitors after every call (bounded exhaustive part, see DESIGN 11.8).",
   note="permitted-in-version is computed by an independent walk over the specification tables", ref="5/C13"),
 "C14": dict(engine="HIST", technique="runtime monitor around sort: multiset preservation, idempotence, permutation independence",
   text="Around sort() the children multiset at every element, order where reordering is forbidden, idempotence and independence of the initial sibling permutation are checked (API-built sibling families and whole-specification documents with same-kind siblings multiplied at every nesting level, also below ordered elements), together with the structural monitors. Thorough repeats the quick workload in an AddressSanitizer build. Permutation scenarios include keyless siblings that differ only in float / unsigned values (NaN, infinities, signed zeros, subnormals).",
   note="siblings identical up to comments are identified, as the property allows", ref="5/C14"),
 "C15": dict(engine="SCHED", technique="runtime lock-event monitor + serialising scheduler over real threads running the real code (deadlock = unfinished threads, none enabled); lock model validated against the real parking_lot lock on every grant; thorough adds free-running pairs under Miri",
   text="Pairs/triples of public operations run on real threads; every lock acquisition is a scheduling point decided by a bounded-deviation depth-first / random scheduler over a model of parking_lot's RwLock (lazy and eager timeouts of the timed requests); a state with unfinished threads and none enabled is a deadlock. Every request the model grants is executed with try_* on the real lock and must succeed (a mismatch makes the run inconclusive). Single deviations from the default schedule are taken evenly spaced over the whole run when they exceed the per-tuple budget.",
   note="restated as bounded progress; lock model derived from parking_lot 0.12 raw_rwlock.rs", ref="5/C15"),
 "C16": dict(engine="SCHED", technique="runtime monitor: outcome ∈ {sequential orders} per explored schedule + structural monitors after join",
   text="For each explored schedule of an operation pair the returned values and final snapshot must equal those of some sequential order (or an order without the operations that returned ParentElementLocked).",
   note="schedules explored at lock-acquisition granularity up to a preemption bound", ref="5/C16"),
 "C17": dict(engine="DOC", technique="runtime differential monitor: check_version_compatibility/set_version vs relabel-and-strict-load oracle over version pairs",
   text="For documents containing version-dependent elements/attributes/enum values and all target versions the compatibility verdict, the mask and set_version are compared with strict loading of the relabelled text; half of the documents have elements emptied of their content so that attributes of content-less elements are exercised. Thorough repeats the quick workload in an AddressSanitizer build.",
   note="precondition: the document loads strictly under its own version", ref="5/C17"),
 "C18": dict(engine="TABLE", technique="runtime exhaustive table sweep: listings parsed from source vs lookups; neighbour non-members; thorough adds a seeded sample of the transmute lookups under Miri",
   text="All names/items/versions listed in the generated sources are round-tripped through the lookups, every (type, listed sub-element/attribute, version) is looked up, all reference×named type pairs are checked, and all one-edit neighbours plus random strings must be rejected. The finite member domains are enumerated completely.",
   note="trusted: build.rs text parser of the generated enum sources; sub_element_spec_iter as the listing", ref="5/C18"),
 "C19": dict(engine="TABLE", technique="runtime differential monitor: validator vs independent regex engine (NFA/DFA) on bounded-exhaustive and automaton-derived strings",
   text="Each of the 28 validator functions is compared with a DFA built from its published regex on all strings up to a length bound over a reduced alphabet, a W-method conformance set and generated members with neighbours.",
   note="reading of '.' and \\d fixed as in DESIGN 4.3; strings where readings differ are excluded and counted", ref="5/C19"),
 "C20": dict(engine="TABLE", technique="runtime oracle: format/parse round trip through the public API; numeric interpretation vs exact big-integer / CPython float oracle",
   text="Values of all four kinds are round-tripped through set/serialize/load/to_string; texts generated from the AUTOSAR lexical forms are interpreted by parse_integer/parse_float/parse_bool and compared with exact radix arithmetic and CPython's correctly rounded float(). Typed variants (Float, UnsignedInteger, Enum, String made through the From conversions) are checked through every accessor and interpretation function.",
   note="CPython float() and the harness's exact decimal comparison are the numeric oracles", ref="5/C20"),
}

NOT_BUILT_REASON = "check not built yet at this commit (design in DESIGN.md section 5); not claimed until it runs silent on the unchanged tree"

checks, na = [], []
for pid in sorted(P):
    e = P[pid]
    if BUILT.get(pid):
        c = {
            "property_id": pid,
            "quick_cmd": f"./check {pid} quick",
            "thorough_cmd": f"./check {pid} thorough",
            "evidence_file": f"/verif/evidence/{pid}.json",
            "replay_cmd_template": f"./check {pid} replay {{path}}",
            "engine": e["engine"],
            "level_claimed": {"category": "exploration", "text": e["text"], "design_ref": e["ref"]},
            "level_note": e["note"],
            "technique": e["technique"],
        }
        checks.append(c)
    else:
        na.append({"property_id": pid, "reason": NOT_BUILT_REASON})

man = {
    "version": 1,
    "setup_cmd": "./setup.sh",
    "hooks": {
        "guard": "cargo feature `verif` of crate autosar-data (off by default)",
        "enable": "the harness depends on /repo/autosar-data with features=[\"verif\"] (path dependency); ./check rebuilds it from /repo's working tree",
        "baseline_off_cmd": "cd /repo && cargo test --workspace --no-fail-fast --offline",
        "source_commits": [l.split()[0] for l in HOOK_COMMITS],
        "add_only": True,
    },
    "engines": [
        {"name": "TABLE", "path": "harness/src/c18.rs harness/src/c19.rs harness/src/c20.rs", "serves_properties": ["C18", "C19", "C20"], "kind_free_text": "exhaustive/bounded table sweeps with independent oracles"},
        {"name": "HIST", "path": "harness/src/hist.rs harness/src/histprops.rs harness/src/histprops2.rs harness/src/monitors.rs harness/src/c07.rs harness/src/c14perm.rs", "serves_properties": ["C03", "C04", "C05", "C06", "C07", "C10", "C11", "C12", "C13", "C14"], "kind_free_text": "generated API histories with invariant monitors after every call"},
        {"name": "DOC", "path": "harness/src/c01.rs harness/src/c02.rs harness/src/c08.rs harness/src/c09.rs harness/src/c17.rs harness/src/refxml.rs harness/src/docgen.rs", "serves_properties": ["C01", "C02", "C08", "C09", "C17"], "kind_free_text": "generated/mutated documents through load/serialize with reference reader and differential oracles"},
        {"name": "SAN", "path": "harness/src/san.rs", "serves_properties": ["C01", "C02", "C03", "C04", "C05", "C06", "C07", "C08", "C09", "C10", "C11", "C12", "C13", "C14", "C15", "C17", "C18"], "kind_free_text": "sanitizer add-on of the thorough tiers: Miri on small monitored workloads, AddressSanitizer rebuild repeating the quick workload; reports become violations, tooling problems are recorded and never change a verdict"},
        {"name": "SCHED", "path": "harness/src/sched.rs harness/src/schedprops.rs harness/src/lockmon.rs", "serves_properties": ["C15", "C16"], "kind_free_text": "lock shim + serialising scheduler over real threads"},
    ],
    "checks": checks,
    "not_applicable": na,
    "notes": "All checks: ./check <id> quick|thorough; exit 0 held, 1 VIOLATION, 2 INCONCLUSIVE. Known findings: /verif/known-findings.txt. VERIF_SEED selects the random stream. ./check <id> replay <file> re-executes a recorded violation. VERIF_NO_SAN=1 switches the sanitizer add-on of the thorough tiers off.",
}
json.dump(man, open("/verif/MANIFEST.json", "w"), indent=1)
print("wrote MANIFEST.json:", len(checks), "checks;", len(na), "not applicable")
