#!/bin/sh
# usage: tools/fixrevert.sh <commit> <property> [tier] — reverts one fix commit in /repo's working tree (not committed), runs the check, restores.
C="$1"; PROP="$2"; TIER="${3:-quick}"
cd /repo || exit 2
if [ -n "$(git status --porcelain --untracked-files=no)" ]; then echo "/repo not clean"; exit 2; fi
git show "$C" | git apply -R || { echo "$C: reverse patch does not apply"; exit 2; }
cd /verif
# the evidence directory describes the unchanged tree: a run against a modified tree must not overwrite it
SAVE=$(mktemp -d /tmp/verif-evidence.XXXXXX); cp evidence/*.json "$SAVE"/ 2>/dev/null
OUT=$(./check "$PROP" "$TIER" 2>&1); CODE=$?
cp "$SAVE"/*.json evidence/ 2>/dev/null; rm -rf "$SAVE"
git -C /repo checkout -- .
echo "revert $C vs $PROP $TIER: exit=$CODE $(echo "$OUT" | grep -c '^VIOLATION') violation(s): $(echo "$OUT" | grep '^  rule=' | sed 's/.*sig=//' | sort -u | head -3 | tr '\n' ';' | cut -c1-260)"
