#!/bin/sh
# usage: tools/allseeded.sh  — runs every seeded change against the check that is recorded as detecting it (meta.json detected_by.check), one line each
cd /verif
for d in seeded/*/; do
  id=$(basename "$d")
  [ -f "$d/meta.json" ] || { prop=C11; tools/seedrun.sh "$id" "$prop" quick 2>&1 | head -1 | cut -c1-220; continue; }
  prop=$(python3 -c "
import json,sys
m=json.load(open('$d/meta.json'))
c=m.get('detected_by',{}).get('check','')
print((c.split()[1]+' '+c.split()[2]) if c else m.get('breaks_property',m.get('property',''))+' quick')")
  tools/seedrun.sh "$id" $prop 2>&1 | head -1 | cut -c1-220
done
