#!/bin/sh
# usage: tools/coverage.sh [tier] [properties...]   — NOT a check; an analysis aid for the generators.
# Builds the harness with source-based coverage instrumentation (nightly, separate target dir), runs the
# given checks (default: all, quick) against /repo's working tree with evidence redirected to a scratch
# root, and prints which functions / lines of /repo/autosar-data*/src no check reached.
# Output: /verif/harness/target-cov/report/{summary.txt,functions-unreached.txt,lines/*.txt}
TIER="${1:-quick}"; [ $# -gt 0 ] && shift
PROPS="$*"
[ -z "$PROPS" ] && PROPS=$(python3 -c "import json;print(' '.join(c['property_id'] for c in json.load(open('/verif/MANIFEST.json'))['checks']))")
export CARGO_NET_OFFLINE=true
H=/verif/harness
T=$H/target-cov
BIN=$(dirname "$(rustup which --toolchain nightly rustc)")/../lib/rustlib/x86_64-unknown-linux-gnu/bin
mkdir -p "$T/prof" "$T/report/lines"
rm -f "$T"/prof/*.profraw
(cd $H && LLVM_PROFILE_FILE="$T/prof/build-%p.profraw" RUSTFLAGS="-Cinstrument-coverage" cargo +nightly build --release --offline --target-dir "$T" >"$T/build.log" 2>&1) || { echo "coverage build failed, see $T/build.log"; exit 2; }
EV=$T/evidence; mkdir -p "$EV"
for p in $PROPS; do
  # fewer histories per run: the instrumented counters are shared between the worker threads and slow them down a lot
  LLVM_PROFILE_FILE="$T/prof/$p-%p-%8m.profraw" VERIF_EVIDENCE_DIR="$EV" VERIF_NO_SAN=1 VERIF_HISTORIES="${VERIF_HISTORIES:-800}" "$T/release/vh" "$p" "$TIER" >"$T/report/run-$p.log" 2>&1
  echo "$p $TIER exit=$? $(grep -E 'verdict=' "$T/report/run-$p.log" | tail -1 | cut -c1-120)"
done
"$BIN/llvm-profdata" merge -sparse "$T"/prof/*.profraw -o "$T/all.profdata" || exit 2
rm -f "$T"/prof/*.profraw
SRCS=$(ls /repo/autosar-data/src/*.rs /repo/autosar-data-specification/src/*.rs | grep -v "/verif.rs")
"$BIN/llvm-cov" report "$T/release/vh" -instr-profile="$T/all.profdata" $SRCS >"$T/report/summary.txt" 2>/dev/null
"$BIN/llvm-cov" export "$T/release/vh" -instr-profile="$T/all.profdata" -format=lcov $SRCS >"$T/report/all.lcov" 2>/dev/null
python3 - "$T/report" <<'EOF'
import sys,re,collections,subprocess
rep=sys.argv[1]
cur=None; fn={}; lines=collections.defaultdict(dict)
for l in open(rep+'/all.lcov'):
    l=l.strip()
    if l.startswith('SF:'): cur=l[3:]
    elif l.startswith('FNDA:'):
        c,name=l[5:].split(',',1); fn[(cur,name)]=fn.get((cur,name),0)+int(c)
    elif l.startswith('DA:'):
        n,c=l[3:].split(',')[:2]; lines[cur][int(n)]=lines[cur].get(int(n),0)+int(c)
def dem(n):
    return n
un=sorted((f,n) for (f,n),c in fn.items() if c==0)
names=[n for _,n in un]
try:
    out=subprocess.run(['rustfilt'],input='\n'.join(names),capture_output=True,text=True).stdout.split('\n')
except Exception:
    out=names
with open(rep+'/functions-unreached.txt','w') as o:
    for (f,n),d in zip(un,out+['']*len(un)):
        o.write(f"{f.split('/repo/')[-1]}  {d or n}\n")
tot=0;miss=0
for f,d in sorted(lines.items()):
    src=open(f,errors='replace').read().split('\n')
    # skip #[cfg(test)] modules: everything after the line `mod test` at column 0
    cut=len(src)
    for i,s in enumerate(src):
        if re.match(r'^mod tests?\b',s) or re.match(r'^#\[cfg\(test\)\]',s): cut=i; break
    with open(rep+'/lines/'+f.split('/repo/')[-1].replace('/','__')+'.txt','w') as o:
        run=[]
        for n in sorted(d):
            if n>cut: break
            tot+=1
            if d[n]==0:
                miss+=1; o.write(f"{n:6}: {src[n-1]}\n")
print(f"lines instrumented (non-test): {tot}, never executed: {miss} ({100.0*miss/max(tot,1):.1f}%), functions never executed: {len(un)}")
EOF
tail -n 3 "$T/report/summary.txt"
