#!/bin/sh
# setup_cmd: offline build of the harness (release profile with debug assertions)
ROOT=$(cd "$(dirname "$0")" && pwd)
export CARGO_NET_OFFLINE=true
mkdir -p "$ROOT/evidence" "$ROOT/replays"
cd "$ROOT/harness" && cargo build --release --offline
