#!/usr/bin/env python3
# Self test of the harness's regex engine: compare its verdicts with CPython's re.fullmatch on bytes patterns.
# input: JSON lines {"regex": str, "cases": [[hex, expected_bool], ...]}; exit 0 and "checked=N" if all agree.
import sys, json, re
checked = 0
bad = []
for line in open(sys.argv[1]):
    rec = json.loads(line)
    pat = re.compile(rec["regex"].encode("ascii"))
    for hx, exp in rec["cases"]:
        s = bytes.fromhex(hx)
        got = pat.fullmatch(s) is not None
        checked += 1
        if got != exp:
            bad.append((rec["regex"], s, exp, got))
if bad:
    for b in bad[:5]:
        print("DISAGREE regex=%r input=%r harness=%r cpython=%r" % b)
    print("disagreements=%d" % len(bad))
    sys.exit(1)
print("checked=%d" % checked)
