#!/usr/bin/env python3
# Float oracle for C20: for each text (one per line) print the IEEE-754 bits (hex) of the correctly rounded value.
# Decimal / exponent / INF / NaN forms: float(text). 0x / 0b / leading-0 octal forms: float(int(digits, base)),
# which CPython rounds correctly (round-half-even) for arbitrarily large integers; OverflowError -> infinity.
import sys, struct
def bits(f):
    return "%016x" % struct.unpack("<Q", struct.pack("<d", f))[0]
out = []
for line in open(sys.argv[1]).read().split("\n"):
    t = line
    try:
        body = t
        if body[:2] in ("0x", "0X"):
            v = int(body[2:], 16)
        elif body[:2] in ("0b", "0B"):
            v = int(body[2:], 2)
        elif len(body) > 1 and body[0] == "0" and body.isdigit():
            v = int(body[1:], 8)
        else:
            v = None
        if v is None:
            f = float(t)
        else:
            try:
                f = float(v)
            except OverflowError:
                f = float("inf")
        out.append(bits(f))
    except Exception:
        out.append("none")
sys.stdout.write("\n".join(out))
