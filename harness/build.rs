// Generates listings of the three name enums and of the version enum by *reading the source text* of
// /repo/autosar-data-specification (doc line = text, `Ident = n`), independent of the lookup functions.
use std::fmt::Write as _;
use std::path::Path;

fn parse_enum(path: &Path, enum_name: &str) -> Vec<(String, String, String)> {
    let text = std::fs::read_to_string(path).unwrap_or_else(|e| panic!("cannot read {}: {e}", path.display()));
    let mut out = Vec::new();
    let mut inside = false;
    let mut doc: Option<String> = None;
    for line in text.lines() {
        let t = line.trim();
        if !inside {
            if t.starts_with(&format!("pub enum {enum_name} {{")) {
                inside = true;
            }
            continue;
        }
        if t == "}" {
            break;
        }
        if let Some(d) = t.strip_prefix("///") {
            doc = Some(d.trim().to_string());
        } else if let Some((ident, value)) = t.split_once('=') {
            let ident = ident.trim().to_string();
            let value = value.trim().trim_end_matches(',').trim().to_string();
            out.push((ident, doc.take().unwrap_or_default(), value));
        }
    }
    out
}

fn main() {
    let spec_src = Path::new("/repo/autosar-data-specification/src");
    let out_dir = std::env::var("OUT_DIR").unwrap();
    let mut code = String::new();
    for (file, enum_name, const_name) in [
        ("elementname.rs", "ElementName", "ELEMENT_NAME_LISTING"),
        ("attributename.rs", "AttributeName", "ATTRIBUTE_NAME_LISTING"),
        ("enumitem.rs", "EnumItem", "ENUM_ITEM_LISTING"),
    ] {
        let path = spec_src.join(file);
        println!("cargo:rerun-if-changed={}", path.display());
        let items = parse_enum(&path, enum_name);
        writeln!(
            code,
            "pub const {const_name}: &[(autosar_data_specification::{enum_name}, &str, u32)] = &["
        )
        .unwrap();
        for (ident, doc, value) in items {
            writeln!(
                code,
                "    (autosar_data_specification::{enum_name}::{ident}, {doc:?}, {value}),"
            )
            .unwrap();
        }
        writeln!(code, "];").unwrap();
    }
    // versions: doc line carries the xsd file name between back ticks
    let path = spec_src.join("autosarversion.rs");
    println!("cargo:rerun-if-changed={}", path.display());
    let items = parse_enum(&path, "AutosarVersion");
    writeln!(
        code,
        "pub const VERSION_LISTING: &[(autosar_data_specification::AutosarVersion, &str, u32)] = &["
    )
    .unwrap();
    for (ident, doc, value) in items {
        let xsd = doc.split('`').nth(1).unwrap_or("").to_string();
        writeln!(
            code,
            "    (autosar_data_specification::AutosarVersion::{ident}, {xsd:?}, {value}),"
        )
        .unwrap();
    }
    writeln!(code, "];").unwrap();
    std::fs::write(Path::new(&out_dir).join("listings.rs"), code).unwrap();
    println!("cargo:rerun-if-changed=build.rs");
}
