use autosar_data::*;
fn main() {
    for v in [AutosarVersion::Autosar_00053, AutosarVersion::Autosar_00050, AutosarVersion::Autosar_00048] {
        let model = AutosarModel::new();
        let _f = model.create_file("a.arxml", v).unwrap();
        let pkgs = model.root_element().create_sub_element(ElementName::ArPackages).unwrap();
        let pkg = pkgs.create_named_sub_element(ElementName::ArPackage, "ab").unwrap();
        let el = pkg.create_sub_element(ElementName::Elements).unwrap();
        let r = el.create_named_sub_element(ElementName::CryptoNeedToPortPrototypeMapping, "b");
        println!("{v:?}: create = {:?}", r.as_ref().map(|_| ()).map_err(|e| e.to_string()));
        let _ = el.create_named_sub_element(ElementName::TriggerInterface, "a10");
        let d = model.duplicate().unwrap();
        let t1 = model.root_element().serialize();
        let t2 = d.root_element().serialize();
        println!("  same text: {}", t1 == t2);
        if t1 != t2 { println!("{t1}\n----\n{t2}"); }
        let (errs, _) = model.files().next().unwrap().check_version_compatibility(v);
        println!("  compat errors with own version: {}", errs.len());
    }
}
