use autosar_data::*;
use autosar_data_specification::*;
fn main() {
    let v = AutosarVersion::Autosar_00050;
    let et = ElementType::ROOT;
    println!("root mode {:?}", et.content_mode());
    let r = et.find_sub_element(ElementName::ArPackages, v as u32);
    println!("{:?}", r.as_ref().map(|(_, i)| i.clone()));
    let (pk, idx) = r.unwrap();
    println!("mult {:?}", et.get_sub_element_multiplicity(&idx));
    let r2 = pk.find_sub_element(ElementName::ArPackage, v as u32).unwrap();
    println!("pkgs mode {:?} idx {:?} mult {:?}", pk.content_mode(), r2.1, pk.get_sub_element_multiplicity(&r2.1));
    let r3 = r2.0.find_sub_element(ElementName::Elements, v as u32).unwrap();
    println!("pkg mode {:?} idx {:?} mult {:?}", r2.0.content_mode(), r3.1, r2.0.get_sub_element_multiplicity(&r3.1));
    let r4 = r3.0.find_sub_element(ElementName::System, v as u32).unwrap();
    println!("elements mode {:?} idx {:?} mult {:?}", r3.0.content_mode(), r4.1, r3.0.get_sub_element_multiplicity(&r4.1));
}
