use vh::docgen::*;
use vh::refxml::{self, Style};
use vh::rng::Rng;
use autosar_data::*;
fn main() {
    let mut errs = std::collections::BTreeMap::new();
    for i in 0..400u64 {
        let mut rng = Rng::derive(1, "dbg", i);
        let version = random_version(&mut rng);
        let (doc, _) = random_chunk_doc(&mut rng, 1, version, 4, true);
        let bytes = refxml::render(&mut rng, Style::varied(), &doc);
        let m = AutosarModel::new();
        if let Err(e) = m.load_buffer(&bytes, "x", false) {
            let msg = e.to_string();
            let line: usize = match &e { AutosarDataError::ParserError{line,..} | AutosarDataError::LexerError{line,..} => *line, _ => 0 };
            let text = String::from_utf8_lossy(&bytes);
            let l = text.lines().skip(line.saturating_sub(4)).take(4).collect::<Vec<_>>().join(" ⏎ ");
            errs.entry(msg.split(':').last().unwrap_or("").chars().take(60).collect::<String>()).or_insert((0, l, msg)).0 += 1;
        }
    }
    for (k, (n, l, m)) in errs { println!("{n} {k}\n    {m}\n    line: {}", l.chars().take(700).collect::<String>()); }
}
