use vh::report::Report;
use vh::rng::Rng;
fn main() {
    vh::panicmon::install();
    let mut best: Option<(usize, String)> = None;
    for c in 0..3000u64 {
        let mut rep = Report::new("C09", "quick", 1);
        let mut rng = Rng::derive(1, "c09", c);
        vh::c09::case(&mut rep, &mut rng, 1, vh::c09::Freedom { shuffle_kinds: false, split_keyless: false, unsorted_kinds: false }, "safe");
        for v in &rep.violations {
            let size = v.detail.len();
            if best.as_ref().is_none_or(|(s, _)| size < *s) {
                best = Some((size, format!("{}\n{}", v.sig, v.detail)));
            }
        }
    }
    if let Some((_, d)) = best { println!("{}", d.replace("\\n", "\n")); }
}
