use autosar_data::*;
fn main() {
    let hdr = "<?xml version=\"1.0\" encoding=\"utf-8\"?>\n<AUTOSAR xsi:schemaLocation=\"http://autosar.org/schema/r4.0 AUTOSAR_00050.xsd\" xmlns=\"http://autosar.org/schema/r4.0\" xmlns:xsi=\"http://www.w3.org/2001/XMLSchema-instance\">";
    let base = format!("{hdr}<AR-PACKAGES><AR-PACKAGE><SHORT-NAME>p</SHORT-NAME></AR-PACKAGE></AR-PACKAGES></AUTOSAR>");
    let doc = format!("{hdr}<AR-PACKAGES><AR-PACKAGE><SHORT-NAME>q</SHORT-NAME><ELEMENTS><SYSTEM><SHORT-NAME>x</SHORT-NAME></SYSTEM><ECU-INSTANCE><SHORT-NAME>x</SHORT-NAME></ECU-INSTANCE></ELEMENTS></AR-PACKAGE></AR-PACKAGES></AUTOSAR>");
    let m = AutosarModel::new();
    m.load_buffer(base.as_bytes(), "base.arxml", true).unwrap();
    let before = m.root_element().serialize();
    let r = m.load_buffer(doc.as_bytes(), "two.arxml", true);
    println!("result: {:?}", r.as_ref().map(|_| "ok").map_err(|e| e.to_string()));
    let after = m.root_element().serialize();
    println!("changed: {} files={} membership of root: {:?}", before != after, m.files().count(), m.root_element().file_membership().map(|(l, s)| (l, s.len())));
    println!("{}", after.replace('\n', "").chars().skip(190).take(400).collect::<String>());
}
