use autosar_data_specification::*;
fn main() {
    let walk = vh::specwalk::SpecWalk::new();
    for info in &walk.types {
        let t = info.etype;
        if t.is_named() && matches!(t.content_mode(), ContentMode::Mixed | ContentMode::Bag) {
            let p = walk.path_to(t);
            let vers: Vec<_> = vh::specwalk::ALL_VERSIONS.iter().filter(|v| t.is_named_in_version(**v)).map(|v| v.filename()).collect();
            println!("{:?} {} named in {:?}", t.content_mode(), p.iter().map(|(_, n, _)| n.to_string()).collect::<Vec<_>>().join("/"), vers);
        }
    }
}
