use autosar_data::*;
fn build(order: &[&str]) -> String {
    let model = AutosarModel::new();
    model.create_file("a.arxml", AutosarVersion::Autosar_00050).unwrap();
    let conns = model.root_element()
        .create_sub_element(ElementName::ArPackages).unwrap()
        .create_named_sub_element(ElementName::ArPackage, "p").unwrap()
        .create_sub_element(ElementName::Elements).unwrap()
        .create_named_sub_element(ElementName::CanTpConfig, "c").unwrap()
        .create_sub_element(ElementName::TpConnections).unwrap();
    for v in order {
        let c = conns.create_sub_element(ElementName::CanTpConnection).unwrap();
        let t = c.create_sub_element(ElementName::TimeoutBr).unwrap();
        t.set_character_data(v.parse::<f64>().unwrap()).unwrap();
    }
    model.sort();
    conns.sub_elements().map(|c| c.get_sub_element(ElementName::TimeoutBr).unwrap().character_data().unwrap().to_string()).collect::<Vec<_>>().join(",")
}
fn main() {
    println!("{}", build(&["2", "NaN", "1"]));
    println!("{}", build(&["1", "NaN", "2"]));
    println!("{}", build(&["NaN", "2", "1"]));
    println!("{}", build(&["2", "1", "NaN"]));
}
