use autosar_data::*;
use autosar_data_specification::*;
fn main() {
    let walk = vh::specwalk::SpecWalk::new();
    for info in &walk.types {
        if let Some((_, name, _)) = info.via {
            if name == ElementName::DataPrototypeIref {
                let t = info.etype;
                let mask = vh::genmodel::path_versions(&walk, t);
                println!("type mode={:?} path_mask={mask:x} path={}", t.content_mode(), walk.path_to(t).iter().map(|(_, n, m)| format!("{n}:{m:x}")).collect::<Vec<_>>().join("/"));
                for v in [AutosarVersion::Autosar_00053, AutosarVersion::Autosar_00049] {
                    let (model, _f) = vh::genmodel::model_for_version(v);
                    let mut k = 0;
                    match vh::genmodel::build_to(&model, &walk, t, &mut k) {
                        Ok(e) => println!("{v:?}: built {} ; allowed: {:?}", e.xml_path(), e.list_valid_sub_elements().iter().map(|i| (i.element_name.to_string(), i.is_allowed)).collect::<Vec<_>>()),
                        Err(e) => println!("{v:?}: build failed {e}"),
                    }
                }
            }
        }
    }
}
