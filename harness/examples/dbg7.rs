use autosar_data::*;
fn main() {
    let hdr = "<?xml version=\"1.0\" encoding=\"utf-8\"?>\n<AUTOSAR xsi:schemaLocation=\"http://autosar.org/schema/r4.0 AUTOSAR_00050.xsd\" xmlns=\"http://autosar.org/schema/r4.0\" xmlns:xsi=\"http://www.w3.org/2001/XMLSchema-instance\">";
    let a = format!("{hdr}<AR-PACKAGES><AR-PACKAGE><SHORT-NAME>p</SHORT-NAME><DESC><L-2 L=\"EN\">x <SUB>a</SUB> y</L-2></DESC></AR-PACKAGE></AR-PACKAGES></AUTOSAR>");
    let b = format!("{hdr}<AR-PACKAGES><AR-PACKAGE><SHORT-NAME>p</SHORT-NAME><DESC><L-2 L=\"EN\">x <SUP>b</SUP> y</L-2></DESC></AR-PACKAGE></AR-PACKAGES></AUTOSAR>");
    let m = AutosarModel::new();
    let (fa, _) = m.load_buffer(a.as_bytes(), "a.arxml", true).unwrap();
    match m.load_buffer(b.as_bytes(), "b.arxml", true) {
        Ok((fb, _)) => {
            println!("merged ok");
            println!("A: {}", fa.serialize().unwrap().replace('\n', ""));
            println!("B: {}", fb.serialize().unwrap().replace('\n', ""));
        }
        Err(e) => println!("second load: {e}"),
    }
}
