//! verdicts, evidence files, known findings, replay files

use crate::json::J;
use std::collections::{BTreeMap, HashSet};
use std::path::PathBuf;
use std::time::Instant;

pub fn verif_root() -> PathBuf {
    if let Ok(p) = std::env::var("VERIF_ROOT") {
        return PathBuf::from(p);
    }
    // the binary lives in <root>/harness/target*/<profile>/vh
    if let Ok(exe) = std::env::current_exe() {
        let mut p = exe.as_path();
        while let Some(parent) = p.parent() {
            if parent.join("MANIFEST.json").exists() && parent.join("properties.jsonl").exists() {
                return parent.to_path_buf();
            }
            p = parent;
        }
    }
    PathBuf::from("/verif")
}

#[derive(Clone, Debug)]
pub struct Violation {
    pub rule: String,
    pub sig: String,
    pub detail: String,
    pub replay: J,
    pub count: u64,
}

#[derive(Clone, Debug)]
pub struct KnownFinding {
    pub property: String,
    pub sig: String,
    pub text: String,
}

pub fn load_known_findings() -> Vec<KnownFinding> {
    let path = verif_root().join("known-findings.txt");
    let mut out = Vec::new();
    if let Ok(text) = std::fs::read_to_string(path) {
        for line in text.lines() {
            let line = line.trim();
            if let Some(rest) = line.strip_prefix("finding:") {
                let rest = rest.trim();
                // property=<id> sig=<sig> :: <what fails>
                let Some(rest) = rest.strip_prefix("property=") else { continue };
                let Some((prop, rest)) = rest.split_once(' ') else { continue };
                let Some(rest) = rest.trim().strip_prefix("sig=") else { continue };
                let (sig, text) = match rest.split_once(" :: ") {
                    Some((s, t)) => (s.trim().to_string(), t.trim().to_string()),
                    None => (rest.trim().to_string(), String::new()),
                };
                out.push(KnownFinding {
                    property: prop.to_string(),
                    sig,
                    text,
                });
            }
        }
    }
    out
}

pub struct Report {
    pub prop: String,
    pub tier: String,
    pub seed: u64,
    pub level: String,
    start: Instant,
    pub evaluations: u64,
    pub distinct: HashSet<u64>,
    pub rule: String,
    pub samples: Vec<J>,
    pub max_samples: usize,
    pub counters: BTreeMap<String, u64>,
    pub extra: BTreeMap<String, J>,
    pub violations: Vec<Violation>,
    pub inconclusive: Vec<String>,
    pub assumptions: Vec<String>,
    pub exhaustive: Option<bool>,
    pub sets: BTreeMap<String, HashSet<u64>>,
    pub names: BTreeMap<String, std::collections::BTreeSet<String>>,
}

impl Report {
    pub fn new(prop: &str, tier: &str, seed: u64) -> Self {
        Report {
            prop: prop.to_string(),
            tier: tier.to_string(),
            seed,
            level: "exploration".into(),
            start: Instant::now(),
            evaluations: 0,
            distinct: HashSet::new(),
            rule: String::new(),
            samples: Vec::new(),
            max_samples: 5,
            counters: BTreeMap::new(),
            extra: BTreeMap::new(),
            violations: Vec::new(),
            inconclusive: Vec::new(),
            assumptions: Vec::new(),
            exhaustive: None,
            sets: BTreeMap::new(),
            names: BTreeMap::new(),
        }
    }

    /// a sub report for one shard (same identity, empty counters)
    pub fn shard(&self) -> Report {
        let mut r = Report::new(&self.prop, &self.tier, self.seed);
        r.max_samples = self.max_samples;
        r
    }

    pub fn count(&mut self, key: &str, n: u64) {
        *self.counters.entry(key.to_string()).or_insert(0) += n;
    }

    pub fn get(&self, key: &str) -> u64 {
        self.counters.get(key).copied().unwrap_or(0)
    }

    /// record one evaluated case; hash = Some(content hash) if the case is non-trivial by the stated rule
    pub fn eval(&mut self, nontrivial_hash: Option<u64>) {
        self.evaluations += 1;
        if let Some(h) = nontrivial_hash {
            self.distinct.insert(h);
        }
    }

    /// count a distinct item in a named set (e.g. distinct model states, distinct lock traces)
    pub fn distinct_in(&mut self, set: &str, hash: u64) {
        self.sets.entry(set.to_string()).or_default().insert(hash);
    }

    /// record a name in a named (small) set that is written out in the evidence
    pub fn name_in(&mut self, set: &str, name: &str) {
        let s = self.names.entry(set.to_string()).or_default();
        if s.len() < 4000 {
            s.insert(name.to_string());
        }
    }

    pub fn sample(&mut self, s: J) {
        if self.samples.len() < self.max_samples {
            self.samples.push(s);
        }
    }

    pub fn violation(&mut self, rule: &str, sig: &str, detail: &str, replay: J) {
        if let Some(v) = self.violations.iter_mut().find(|v| v.sig == sig) {
            v.count += 1;
            return;
        }
        self.violations.push(Violation {
            rule: rule.to_string(),
            sig: sig.to_string(),
            detail: detail.to_string(),
            replay,
            count: 1,
        });
    }

    pub fn inconclusive(&mut self, reason: &str) {
        if !self.inconclusive.iter().any(|r| r == reason) && self.inconclusive.len() < 50 {
            self.inconclusive.push(reason.to_string());
        }
    }

    /// coverage floor: the run is inconclusive if a counter stayed below its minimum
    pub fn require(&mut self, key: &str, min: u64) {
        let have = self.get(key);
        if have < min {
            self.inconclusive(&format!("coverage floor not met: {key}={have} < {min}"));
        }
    }

    pub fn merge(&mut self, other: Report) {
        self.evaluations += other.evaluations;
        self.distinct.extend(other.distinct);
        for (k, v) in other.counters {
            *self.counters.entry(k).or_insert(0) += v;
        }
        for (k, v) in other.sets {
            self.sets.entry(k).or_default().extend(v);
        }
        for (k, v) in other.names {
            self.names.entry(k).or_default().extend(v);
        }
        for s in other.samples {
            self.sample(s);
        }
        for (k, v) in other.extra {
            self.extra.entry(k).or_insert(v);
        }
        for v in other.violations {
            if let Some(mine) = self.violations.iter_mut().find(|m| m.sig == v.sig) {
                mine.count += v.count;
            } else {
                self.violations.push(v);
            }
        }
        for r in other.inconclusive {
            self.inconclusive(&r);
        }
        for a in other.assumptions {
            if !self.assumptions.contains(&a) {
                self.assumptions.push(a);
            }
        }
    }

    /// serialise the counters and findings of a sub report (for worker processes)
    pub fn to_json(&self) -> J {
        let mut out = J::obj();
        out.set("evaluations", J::Int(self.evaluations as i64));
        out.set("distinct", J::Arr(self.distinct.iter().map(|h| J::s(format!("{h:x}"))).collect()));
        let mut counters = J::obj();
        for (k, v) in &self.counters {
            counters.set(k, J::Int(*v as i64));
        }
        out.set("counters", counters);
        let mut sets = J::obj();
        for (k, v) in &self.sets {
            sets.set(k, J::Arr(v.iter().map(|h| J::s(format!("{h:x}"))).collect()));
        }
        out.set("sets", sets);
        out.set("samples", J::Arr(self.samples.clone()));
        out.set("inconclusive", J::arr_of_str(self.inconclusive.iter().cloned()));
        out.set(
            "violations",
            J::Arr(
                self.violations
                    .iter()
                    .map(|v| J::obj().with("rule", J::s(&v.rule)).with("sig", J::s(&v.sig)).with("detail", J::s(&v.detail)).with("count", J::Int(v.count as i64)).with("replay", v.replay.clone()))
                    .collect(),
            ),
        );
        let mut extra = J::obj();
        for (k, v) in &self.extra {
            extra.set(k, v.clone());
        }
        out.set("extra", extra);
        let mut names = J::obj();
        for (k, v) in &self.names {
            names.set(k, J::arr_of_str(v.iter().cloned()));
        }
        out.set("names", names);
        out
    }

    /// merge a sub report serialised with to_json
    pub fn merge_json(&mut self, j: &J) {
        self.evaluations += j.get("evaluations").and_then(J::as_i64).unwrap_or(0) as u64;
        if let Some(J::Arr(d)) = j.get("distinct") {
            for h in d {
                if let Some(h) = h.as_str().and_then(|s| u64::from_str_radix(s, 16).ok()) {
                    self.distinct.insert(h);
                }
            }
        }
        if let Some(J::Obj(c)) = j.get("counters") {
            for (k, v) in c {
                self.count(k, v.as_i64().unwrap_or(0) as u64);
            }
        }
        if let Some(J::Obj(sets)) = j.get("sets") {
            for (k, v) in sets {
                if let J::Arr(items) = v {
                    for h in items {
                        if let Some(h) = h.as_str().and_then(|s| u64::from_str_radix(s, 16).ok()) {
                            self.distinct_in(k, h);
                        }
                    }
                }
            }
        }
        if let Some(J::Obj(names)) = j.get("names") {
            for (k, v) in names {
                if let J::Arr(items) = v {
                    for n in items.iter().filter_map(J::as_str) {
                        self.name_in(k, n);
                    }
                }
            }
        }
        if let Some(J::Arr(s)) = j.get("samples") {
            for x in s {
                self.sample(x.clone());
            }
        }
        if let Some(J::Arr(s)) = j.get("inconclusive") {
            for x in s {
                if let Some(r) = x.as_str() {
                    self.inconclusive(r);
                }
            }
        }
        if let Some(J::Arr(vs)) = j.get("violations") {
            for v in vs {
                let g = |k: &str| v.get(k).and_then(J::as_str).unwrap_or("").to_string();
                let n = v.get("count").and_then(J::as_i64).unwrap_or(1) as u64;
                let sig = g("sig");
                self.violation(&g("rule"), &sig, &g("detail"), v.get("replay").cloned().unwrap_or(J::Null));
                if let Some(mine) = self.violations.iter_mut().find(|m| m.sig == sig) {
                    mine.count += n.saturating_sub(1);
                }
            }
        }
        if let Some(J::Obj(e)) = j.get("extra") {
            for (k, v) in e {
                self.extra.entry(k.clone()).or_insert(v.clone());
            }
        }
    }

    /// write evidence, print verdict lines, return the exit code
    pub fn finish(mut self) -> i32 {
        let root = verif_root();
        let known = load_known_findings();
        let mut new_violations = Vec::new();
        let mut known_hits = Vec::new();
        self.violations.sort_by(|a, b| a.sig.cmp(&b.sig));
        for v in &self.violations {
            if let Some(k) = known.iter().find(|k| k.property == self.prop && k.sig == v.sig) {
                known_hits.push((k.clone(), v.clone()));
            } else {
                new_violations.push(v.clone());
            }
        }

        // replay files for new violations
        let replay_dir = root.join("replays");
        let _ = std::fs::create_dir_all(&replay_dir);
        let mut violation_lines = Vec::new();
        for v in &new_violations {
            let h = crate::rng::hash_str(&v.sig);
            let path = replay_dir.join(format!("{}-{:016x}.json", self.prop, h));
            let doc = J::obj()
                .with("property", J::s(&self.prop))
                .with("tier", J::s(&self.tier))
                .with("seed", J::Int(self.seed as i64))
                .with("rule", J::s(&v.rule))
                .with("signature", J::s(&v.sig))
                .with("detail", J::s(&v.detail))
                .with("occurrences", J::Int(v.count as i64))
                .with("replay", v.replay.clone());
            let _ = std::fs::write(&path, doc.to_string_pretty());
            violation_lines.push(format!("VIOLATION property={} replay={}", self.prop, path.display()));
            println!("  rule={} sig={}", v.rule, v.sig);
            println!("  detail: {}", v.detail.chars().take(1500).collect::<String>());
        }
        let mut seen_texts = HashSet::new();
        for (k, v) in &known_hits {
            let line = format!("KNOWN-FINDING: property={} {} [sig={}; seen {}x]", self.prop, k.text, k.sig, v.count);
            if seen_texts.insert(k.sig.clone()) {
                println!("{line}");
            }
        }

        // evidence
        let mut coverage = J::obj();
        coverage.set("evaluations", J::Int(self.evaluations as i64));
        coverage.set("distinct_nontrivial", J::Int(self.distinct.len() as i64));
        coverage.set("rule", J::s(&self.rule));
        coverage.set("samples", J::Arr(self.samples.clone()));
        if let Some(e) = self.exhaustive {
            coverage.set("exhaustive", J::Bool(e));
        }
        let mut counters = J::obj();
        for (k, v) in &self.counters {
            counters.set(k, J::Int(*v as i64));
        }
        coverage.set("counters", counters);
        let mut sets = J::obj();
        for (k, v) in &self.sets {
            sets.set(k, J::Int(v.len() as i64));
        }
        coverage.set("distinct_counts", sets);
        for (k, v) in &self.names {
            let list: Vec<J> = v.iter().take(400).map(|s| J::s(s.clone())).collect();
            coverage.set(&format!("{k}_count"), J::Int(v.len() as i64));
            coverage.set(k, J::Arr(list));
        }
        for (k, v) in &self.extra {
            coverage.set(k, v.clone());
        }
        coverage.set(
            "known_findings_seen",
            J::Arr(
                known_hits
                    .iter()
                    .map(|(k, v)| J::obj().with("sig", J::s(&k.sig)).with("count", J::Int(v.count as i64)))
                    .collect(),
            ),
        );
        coverage.set(
            "new_violations",
            J::Arr(
                new_violations
                    .iter()
                    .map(|v| {
                        J::obj()
                            .with("sig", J::s(&v.sig))
                            .with("rule", J::s(&v.rule))
                            .with("count", J::Int(v.count as i64))
                    })
                    .collect(),
            ),
        );
        coverage.set("inconclusive", J::arr_of_str(self.inconclusive.iter().cloned()));
        let verdict = if !new_violations.is_empty() {
            "violated"
        } else if !self.inconclusive.is_empty() {
            "inconclusive"
        } else {
            "held"
        };
        coverage.set("verdict", J::s(verdict));
        let wall = self.start.elapsed().as_secs_f64();
        let doc = J::obj()
            .with("property_id", J::s(&self.prop))
            .with("tier", J::s(&self.tier))
            .with("seed", J::Int(self.seed as i64))
            .with("level", J::s(&self.level))
            .with("coverage", coverage)
            .with("assumptions", J::arr_of_str(self.assumptions.iter().cloned()))
            .with("wall_s", J::Num((wall * 1000.0).round() / 1000.0))
            .with("violations", J::Int(new_violations.len() as i64));
        // reruns by the sanitizer add-on and by `replay` describe other runs: they redirect their evidence (VERIF_EVIDENCE_DIR)
        let evidence_dir = match std::env::var("VERIF_EVIDENCE_DIR") {
            Ok(d) if !d.is_empty() => PathBuf::from(d),
            _ => root.join("evidence"),
        };
        let _ = std::fs::create_dir_all(&evidence_dir);
        let evidence_path = evidence_dir.join(format!("{}.json", self.prop));
        if let Err(e) = std::fs::write(&evidence_path, doc.to_string_pretty()) {
            println!("INCONCLUSIVE property={} reason=cannot write evidence: {e}", self.prop);
            return 2;
        }

        println!(
            "{} {}: verdict={} evaluations={} distinct_nontrivial={} known_findings_seen={} wall={:.1}s",
            self.prop,
            self.tier,
            verdict,
            self.evaluations,
            self.distinct.len(),
            known_hits.len(),
            wall
        );
        for line in &violation_lines {
            println!("{line}");
        }
        if !new_violations.is_empty() {
            1
        } else if !self.inconclusive.is_empty() {
            for r in &self.inconclusive {
                println!("INCONCLUSIVE property={} reason={}", self.prop, r);
            }
            2
        } else {
            0
        }
    }
}

/// run `n` shards on up to `threads` OS threads; each shard gets its own sub report
pub fn run_shards<F>(report: &mut Report, n: usize, threads: usize, stack_mb: usize, f: F)
where
    F: Fn(usize, &mut Report) + Sync,
{
    let next = std::sync::atomic::AtomicUsize::new(0);
    let results = std::sync::Mutex::new(Vec::new());
    let template = &*report;
    std::thread::scope(|scope| {
        for _ in 0..threads.min(n).max(1) {
            std::thread::Builder::new()
                .stack_size(stack_mb * 1024 * 1024)
                .spawn_scoped(scope, || loop {
                    let i = next.fetch_add(1, std::sync::atomic::Ordering::SeqCst);
                    if i >= n {
                        break;
                    }
                    let mut sub = template.shard();
                    let r = std::panic::catch_unwind(std::panic::AssertUnwindSafe(|| f(i, &mut sub)));
                    if let Err(e) = r {
                        let msg = panic_message(&e);
                        sub.inconclusive(&format!("harness panic in shard {i}: {msg}"));
                    }
                    results.lock().unwrap().push((i, sub));
                })
                .expect("spawn shard thread");
        }
    });
    let mut results = results.into_inner().unwrap();
    results.sort_by_key(|(i, _)| *i);
    for (_, sub) in results {
        report.merge(sub);
    }
}

pub fn panic_message(e: &Box<dyn std::any::Any + Send>) -> String {
    if let Some(s) = e.downcast_ref::<&str>() {
        (*s).to_string()
    } else if let Some(s) = e.downcast_ref::<String>() {
        s.clone()
    } else {
        "(non-string panic payload)".to_string()
    }
}

pub fn cpu_count() -> usize {
    std::env::var("VERIF_THREADS")
        .ok()
        .and_then(|s| s.parse().ok())
        .unwrap_or_else(|| std::thread::available_parallelism().map_or(8, |n| n.get()))
}


/// run worker processes `vh <args..> <shard> <nshards>` in parallel and merge the reports they print as `REPORT <json>`
pub fn run_worker_processes(rep: &mut Report, base_args: &[String], shards: usize, timeout_s: u64) {
    use std::os::unix::process::ExitStatusExt;
    use std::process::{Command, Stdio};
    let exe = std::env::current_exe().expect("current_exe");
    let results: Vec<(usize, Option<i32>, Option<i32>, bool, String)> = std::thread::scope(|s| {
        let handles: Vec<_> = (0..shards)
            .map(|i| {
                let exe = exe.clone();
                let mut args = base_args.to_vec();
                args.push(i.to_string());
                args.push(shards.to_string());
                s.spawn(move || {
                    let mut child = match Command::new(&exe).args(&args).stdout(Stdio::piped()).stderr(Stdio::null()).spawn() {
                        Ok(c) => c,
                        Err(e) => return (i, None, None, false, format!("spawn failed: {e}")),
                    };
                    let mut stdout = child.stdout.take().unwrap();
                    let reader = std::thread::spawn(move || {
                        let mut s = String::new();
                        let _ = std::io::Read::read_to_string(&mut stdout, &mut s);
                        s
                    });
                    let start = Instant::now();
                    let mut timed_out = false;
                    let status = loop {
                        match child.try_wait() {
                            Ok(Some(st)) => break Some(st),
                            Ok(None) => {
                                if start.elapsed().as_secs() >= timeout_s {
                                    timed_out = true;
                                    let _ = child.kill();
                                    break child.wait().ok();
                                }
                                std::thread::sleep(std::time::Duration::from_millis(20));
                            }
                            Err(_) => break None,
                        }
                    };
                    let out = reader.join().unwrap_or_default();
                    (i, status.and_then(|s| s.code()), status.and_then(|s| s.signal()), timed_out, out)
                })
            })
            .collect();
        handles.into_iter().map(|h| h.join().unwrap()).collect()
    });
    for (i, code, signal, timed_out, out) in results {
        let mut got = false;
        for line in out.lines() {
            if let Some(json) = line.strip_prefix("REPORT ") {
                if let Ok(j) = crate::json::parse(json) {
                    rep.merge_json(&j);
                    got = true;
                }
            }
        }
        if !got {
            if timed_out {
                rep.inconclusive(&format!("worker process {i} exceeded its time budget of {timeout_s} s"));
            } else {
                rep.inconclusive(&format!("worker process {i} ended without a report (exit {code:?}, signal {signal:?})"));
            }
        }
    }
}

/// `./check <id> replay <file>` for the checks whose cases are generated from (seed, tier): run the same exploration again with the
/// recorded seed and tier (evidence redirected) and report whether the recorded signature shows up again
pub fn generic_replay(prop: &str, path: &str) -> i32 {
    use std::process::{Command, Stdio};
    let Ok(text) = std::fs::read_to_string(path) else {
        println!("INCONCLUSIVE property={prop} reason=cannot read replay file {path}");
        return 2;
    };
    let Ok(doc) = crate::json::parse(&text) else {
        println!("INCONCLUSIVE property={prop} reason=cannot parse replay file {path}");
        return 2;
    };
    let sig = doc.get("signature").and_then(J::as_str).unwrap_or("").to_string();
    let tier = doc.get("tier").and_then(J::as_str).unwrap_or("quick").to_string();
    let seed = doc.get("seed").and_then(J::as_i64).unwrap_or(1);
    let root = verif_root();
    let exe = std::env::current_exe().expect("current_exe");
    println!("replaying {prop} {tier} with VERIF_SEED={seed}, looking for sig={sig}");
    let out = Command::new(exe)
        .args([prop, &tier])
        .env("VERIF_SEED", seed.to_string())
        .env("VERIF_NO_SAN", "1")
        .env("VERIF_EVIDENCE_DIR", root.join("harness/target/replay-evidence"))
        .stdout(Stdio::piped())
        .stderr(Stdio::null())
        .output();
    let Ok(out) = out else {
        println!("INCONCLUSIVE property={prop} reason=cannot start the replay run");
        return 2;
    };
    let stdout = String::from_utf8_lossy(&out.stdout);
    let mut hit = false;
    let mut lines = stdout.lines().peekable();
    while let Some(l) = lines.next() {
        let is_new = l.trim_start().starts_with("rule=") && l.trim_end().ends_with(&format!("sig={sig}"));
        let is_known = l.starts_with("KNOWN-FINDING:") && l.contains(&format!("[sig={sig};"));
        if is_new || is_known {
            hit = true;
            println!("{l}");
            if is_new {
                if let Some(d) = lines.peek() {
                    println!("{d}");
                }
            }
        }
    }
    if hit {
        println!("replay: the signature is reproduced on the current tree");
        println!("VIOLATION property={prop} replay={path}");
        1
    } else {
        println!("replay: the signature does not occur on the current tree ({})", stdout.lines().find(|l| l.contains("verdict=")).unwrap_or("no verdict line"));
        0
    }
}
