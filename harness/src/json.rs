//! minimal JSON value, writer and parser (no external crates available)

use std::collections::BTreeMap;

#[derive(Clone, Debug, PartialEq)]
pub enum J {
    Null,
    Bool(bool),
    Int(i64),
    Num(f64),
    Str(String),
    Arr(Vec<J>),
    Obj(BTreeMap<String, J>),
}

impl J {
    pub fn obj() -> J {
        J::Obj(BTreeMap::new())
    }
    pub fn s(v: impl Into<String>) -> J {
        J::Str(v.into())
    }
    pub fn set(&mut self, key: &str, value: J) -> &mut J {
        if let J::Obj(map) = self {
            map.insert(key.to_string(), value);
        }
        self
    }
    pub fn with(mut self, key: &str, value: J) -> J {
        self.set(key, value);
        self
    }
    pub fn get(&self, key: &str) -> Option<&J> {
        if let J::Obj(map) = self {
            map.get(key)
        } else {
            None
        }
    }
    pub fn as_str(&self) -> Option<&str> {
        if let J::Str(s) = self {
            Some(s)
        } else {
            None
        }
    }
    pub fn as_i64(&self) -> Option<i64> {
        match self {
            J::Int(i) => Some(*i),
            J::Num(f) => Some(*f as i64),
            _ => None,
        }
    }
    pub fn as_arr(&self) -> Option<&Vec<J>> {
        if let J::Arr(a) = self {
            Some(a)
        } else {
            None
        }
    }
    pub fn arr_of_str<I: IntoIterator<Item = S>, S: Into<String>>(items: I) -> J {
        J::Arr(items.into_iter().map(|s| J::Str(s.into())).collect())
    }

    pub fn to_string_pretty(&self) -> String {
        let mut out = String::new();
        self.write(&mut out, 0, true);
        out.push('\n');
        out
    }
    pub fn to_string_compact(&self) -> String {
        let mut out = String::new();
        self.write(&mut out, 0, false);
        out
    }

    fn write(&self, out: &mut String, indent: usize, pretty: bool) {
        match self {
            J::Null => out.push_str("null"),
            J::Bool(b) => out.push_str(if *b { "true" } else { "false" }),
            J::Int(i) => out.push_str(&i.to_string()),
            J::Num(f) => {
                if f.is_finite() {
                    let s = format!("{f}");
                    out.push_str(&s);
                    if !s.contains('.') && !s.contains('e') {
                        out.push_str(".0");
                    }
                } else {
                    out.push_str("null");
                }
            }
            J::Str(s) => write_str(out, s),
            J::Arr(items) => {
                if items.is_empty() {
                    out.push_str("[]");
                    return;
                }
                out.push('[');
                for (i, item) in items.iter().enumerate() {
                    if i > 0 {
                        out.push(',');
                    }
                    if pretty {
                        out.push('\n');
                        out.push_str(&" ".repeat(indent + 1));
                    }
                    item.write(out, indent + 1, pretty);
                }
                if pretty {
                    out.push('\n');
                    out.push_str(&" ".repeat(indent));
                }
                out.push(']');
            }
            J::Obj(map) => {
                if map.is_empty() {
                    out.push_str("{}");
                    return;
                }
                out.push('{');
                for (i, (k, v)) in map.iter().enumerate() {
                    if i > 0 {
                        out.push(',');
                    }
                    if pretty {
                        out.push('\n');
                        out.push_str(&" ".repeat(indent + 1));
                    }
                    write_str(out, k);
                    out.push(':');
                    if pretty {
                        out.push(' ');
                    }
                    v.write(out, indent + 1, pretty);
                }
                if pretty {
                    out.push('\n');
                    out.push_str(&" ".repeat(indent));
                }
                out.push('}');
            }
        }
    }
}

fn write_str(out: &mut String, s: &str) {
    out.push('"');
    for c in s.chars() {
        match c {
            '"' => out.push_str("\\\""),
            '\\' => out.push_str("\\\\"),
            '\n' => out.push_str("\\n"),
            '\r' => out.push_str("\\r"),
            '\t' => out.push_str("\\t"),
            c if (c as u32) < 0x20 => out.push_str(&format!("\\u{:04x}", c as u32)),
            c => out.push(c),
        }
    }
    out.push('"');
}

impl From<&str> for J {
    fn from(v: &str) -> J {
        J::Str(v.to_string())
    }
}
impl From<String> for J {
    fn from(v: String) -> J {
        J::Str(v)
    }
}
impl From<u64> for J {
    fn from(v: u64) -> J {
        J::Int(v as i64)
    }
}
impl From<usize> for J {
    fn from(v: usize) -> J {
        J::Int(v as i64)
    }
}
impl From<i64> for J {
    fn from(v: i64) -> J {
        J::Int(v)
    }
}
impl From<bool> for J {
    fn from(v: bool) -> J {
        J::Bool(v)
    }
}
impl From<f64> for J {
    fn from(v: f64) -> J {
        J::Num(v)
    }
}

// ---------------------------------------------------------------------------------------------
// parser

pub fn parse(text: &str) -> Result<J, String> {
    let bytes = text.as_bytes();
    let mut pos = 0;
    let value = parse_value(bytes, &mut pos)?;
    skip_ws(bytes, &mut pos);
    if pos != bytes.len() {
        return Err(format!("trailing data at {pos}"));
    }
    Ok(value)
}

fn skip_ws(b: &[u8], pos: &mut usize) {
    while *pos < b.len() && (b[*pos] as char).is_ascii_whitespace() {
        *pos += 1;
    }
}

fn parse_value(b: &[u8], pos: &mut usize) -> Result<J, String> {
    skip_ws(b, pos);
    if *pos >= b.len() {
        return Err("unexpected end".into());
    }
    match b[*pos] {
        b'{' => {
            *pos += 1;
            let mut map = BTreeMap::new();
            skip_ws(b, pos);
            if *pos < b.len() && b[*pos] == b'}' {
                *pos += 1;
                return Ok(J::Obj(map));
            }
            loop {
                skip_ws(b, pos);
                let key = parse_string(b, pos)?;
                skip_ws(b, pos);
                if *pos >= b.len() || b[*pos] != b':' {
                    return Err(format!("expected ':' at {pos}"));
                }
                *pos += 1;
                let value = parse_value(b, pos)?;
                map.insert(key, value);
                skip_ws(b, pos);
                if *pos < b.len() && b[*pos] == b',' {
                    *pos += 1;
                } else if *pos < b.len() && b[*pos] == b'}' {
                    *pos += 1;
                    return Ok(J::Obj(map));
                } else {
                    return Err(format!("expected ',' or '}}' at {pos}"));
                }
            }
        }
        b'[' => {
            *pos += 1;
            let mut items = Vec::new();
            skip_ws(b, pos);
            if *pos < b.len() && b[*pos] == b']' {
                *pos += 1;
                return Ok(J::Arr(items));
            }
            loop {
                items.push(parse_value(b, pos)?);
                skip_ws(b, pos);
                if *pos < b.len() && b[*pos] == b',' {
                    *pos += 1;
                } else if *pos < b.len() && b[*pos] == b']' {
                    *pos += 1;
                    return Ok(J::Arr(items));
                } else {
                    return Err(format!("expected ',' or ']' at {pos}"));
                }
            }
        }
        b'"' => Ok(J::Str(parse_string(b, pos)?)),
        b't' if b[*pos..].starts_with(b"true") => {
            *pos += 4;
            Ok(J::Bool(true))
        }
        b'f' if b[*pos..].starts_with(b"false") => {
            *pos += 5;
            Ok(J::Bool(false))
        }
        b'n' if b[*pos..].starts_with(b"null") => {
            *pos += 4;
            Ok(J::Null)
        }
        _ => {
            let start = *pos;
            while *pos < b.len() && matches!(b[*pos], b'0'..=b'9' | b'-' | b'+' | b'.' | b'e' | b'E') {
                *pos += 1;
            }
            let s = std::str::from_utf8(&b[start..*pos]).map_err(|e| e.to_string())?;
            if let Ok(i) = s.parse::<i64>() {
                Ok(J::Int(i))
            } else {
                s.parse::<f64>().map(J::Num).map_err(|_| format!("bad number '{s}' at {start}"))
            }
        }
    }
}

fn parse_string(b: &[u8], pos: &mut usize) -> Result<String, String> {
    if *pos >= b.len() || b[*pos] != b'"' {
        return Err(format!("expected string at {pos}"));
    }
    *pos += 1;
    let mut out = Vec::new();
    while *pos < b.len() {
        match b[*pos] {
            b'"' => {
                *pos += 1;
                return String::from_utf8(out).map_err(|e| e.to_string());
            }
            b'\\' => {
                *pos += 1;
                if *pos >= b.len() {
                    break;
                }
                match b[*pos] {
                    b'n' => out.push(b'\n'),
                    b'r' => out.push(b'\r'),
                    b't' => out.push(b'\t'),
                    b'b' => out.push(8),
                    b'f' => out.push(12),
                    b'u' => {
                        let hex = std::str::from_utf8(&b[*pos + 1..*pos + 5]).map_err(|e| e.to_string())?;
                        let cp = u32::from_str_radix(hex, 16).map_err(|e| e.to_string())?;
                        let ch = char::from_u32(cp).unwrap_or('\u{fffd}');
                        let mut buf = [0u8; 4];
                        out.extend_from_slice(ch.encode_utf8(&mut buf).as_bytes());
                        *pos += 4;
                    }
                    other => out.push(other),
                }
                *pos += 1;
            }
            c => {
                out.push(c);
                *pos += 1;
            }
        }
    }
    Err("unterminated string".into())
}

pub fn hex_encode(bytes: &[u8]) -> String {
    let mut s = String::with_capacity(bytes.len() * 2);
    for b in bytes {
        s.push_str(&format!("{b:02x}"));
    }
    s
}

pub fn hex_decode(text: &str) -> Vec<u8> {
    let t = text.as_bytes();
    let mut out = Vec::with_capacity(t.len() / 2);
    let mut i = 0;
    while i + 1 < t.len() {
        let hi = (t[i] as char).to_digit(16).unwrap_or(0) as u8;
        let lo = (t[i + 1] as char).to_digit(16).unwrap_or(0) as u8;
        out.push(hi << 4 | lo);
        i += 2;
    }
    out
}

/// printable rendering of arbitrary bytes for samples (lossy, bounded)
pub fn show_bytes(bytes: &[u8], max: usize) -> String {
    let mut s = String::new();
    for b in bytes.iter().take(max) {
        match *b {
            b'\n' => s.push_str("\\n"),
            b'\r' => s.push_str("\\r"),
            b'\t' => s.push_str("\\t"),
            b'\\' => s.push_str("\\\\"),
            0x20..=0x7e => s.push(*b as char),
            other => s.push_str(&format!("\\x{other:02x}")),
        }
    }
    if bytes.len() > max {
        s.push_str(&format!("...(+{} bytes)", bytes.len() - max));
    }
    s
}
