//! C08 — strict and lenient validation agree; strict validation has no holes (DOC engine)

use crate::c18::ELEMENT_NAME_LISTING;
use crate::docgen::*;
use crate::json::{show_bytes, J};
use crate::refcmp::child_type;
use crate::refxml::{self, RefDoc, RefItem, RefNode, Style};
use crate::report::{cpu_count, run_shards, Report};
use crate::rng::{hash_bytes, Rng};
use crate::rx::Dfa;
use crate::walk::{dump_tree, DumpOpts, Tree};
use autosar_data::*;
use autosar_data_specification::{CharacterDataSpec, ContentMode, ElementMultiplicity, ElementType};
use std::str::FromStr;

fn viol(rep: &mut Report, rule: &str, pred: &str, detail: String, bytes: &[u8]) {
    rep.violation(
        rule,
        &format!("C08:{rule}:{pred}"),
        &format!("{detail}\n  document ({} bytes): {}", bytes.len(), show_bytes(bytes, 900)),
        J::obj().with("engine", J::s("doc")).with("document_hex", J::s(crate::json::hex_encode(&bytes[..bytes.len().min(20000)]))),
    );
}

fn err_key(e: &AutosarDataError) -> (String, usize, String) {
    let line = match e {
        AutosarDataError::ParserError { line, .. } | AutosarDataError::LexerError { line, .. } => *line,
        _ => 0,
    };
    (crate::hist::err_variant(e), line, e.to_string())
}

/// O1: the differential oracle for one input
pub fn differential(rep: &mut Report, bytes: &[u8], class: &str) -> (bool, bool) {
    rep.evaluations += 1;
    let ms = AutosarModel::new();
    let ml = AutosarModel::new();
    let rs = crate::panicmon::catch(|| ms.load_buffer(bytes, "doc.arxml", true));
    let rl = crate::panicmon::catch(|| ml.load_buffer(bytes, "doc.arxml", false));
    let (rs, rl) = match (rs, rl) {
        (Ok(a), Ok(b)) => (a, b),
        _ => {
            rep.count("loader_panicked(belongs to C02)", 1);
            return (false, false);
        }
    };
    rep.distinct.insert(hash_bytes(bytes));
    match (&rs, &rl) {
        (Ok((_, ws)), Ok((_, wl))) => {
            rep.count(&format!("both_accept.{class}"), 1);
            if !ws.is_empty() {
                viol(rep, "differential/strict-returns-warnings", "", format!("{} warnings", ws.len()), bytes);
            }
            if !wl.is_empty() {
                viol(
                    rep,
                    "differential/strict-accepts-what-lenient-warns-about",
                    &crate::hist::err_variant(&wl[0]),
                    format!("strict loading succeeds, lenient loading returns warnings: {:?}", wl.iter().map(|w| w.to_string()).take(3).collect::<Vec<_>>()),
                    bytes,
                );
            } else {
                let opts = DumpOpts::default();
                let a = dump_tree(&Tree::of_model(&ms), &opts);
                let b = dump_tree(&Tree::of_model(&ml), &opts);
                if a != b {
                    viol(rep, "differential/models-differ", "", crate::histprops::first_diff(&a, &b), bytes);
                }
            }
        }
        (Err(es), Ok((_, wl))) => {
            rep.count(&format!("strict_rejects_lenient_warns.{class}"), 1);
            if wl.is_empty() {
                viol(rep, "differential/strict-rejects-lenient-silent", &crate::hist::err_variant(es), format!("strict loading fails with '{es}', lenient loading succeeds without any warning"), bytes);
            } else if err_key(es) != err_key(&wl[0]) {
                viol(
                    rep,
                    "differential/strict-error-is-not-first-warning",
                    &format!("{}/{}", crate::hist::err_variant(es), crate::hist::err_variant(&wl[0])),
                    format!("strict error: {:?}; first lenient warning: {:?}", err_key(es), err_key(&wl[0])),
                    bytes,
                );
            }
        }
        (Err(_), Err(_)) => rep.count(&format!("both_reject.{class}"), 1),
        (Ok(_), Err(el)) => {
            viol(rep, "differential/lenient-rejects-strict-accepts", &crate::hist::err_variant(el), format!("lenient loading fails with '{el}', strict loading succeeds"), bytes);
        }
    }
    (rs.is_ok(), rl.is_ok())
}

// ------------------------------------------------------------------------------------------------
// injections

struct Site {
    path: Vec<usize>,
    etype: ElementType,
}

fn collect_sites(n: &RefNode, etype: ElementType, version: AutosarVersion, path: &mut Vec<usize>, out: &mut Vec<Site>) {
    out.push(Site { path: path.clone(), etype });
    for (i, item) in n.items.iter().enumerate() {
        if let RefItem::Elem(c) = item {
            if let Some(ct) = type_of(etype, &c.name, version) {
                path.push(i);
                collect_sites(c, ct, version, path, out);
                path.pop();
            }
        }
    }
}

fn node_mut<'a>(root: &'a mut RefNode, path: &[usize]) -> &'a mut RefNode {
    let mut cur = root;
    for i in path {
        cur = match &mut cur.items[*i] {
            RefItem::Elem(c) => c,
            RefItem::Text(..) => unreachable!(),
        };
    }
    cur
}

pub const CLASSES: [&str; 16] = [
    "unknown-element",
    "foreign-element",
    "version-foreign-element",
    "version-foreign-attribute",
    "version-foreign-enum-value",
    "choice-conflict",
    "multiplicity-excess",
    "missing-short-name",
    "missing-required-attribute",
    "value-too-long",
    "pattern-non-member",
    "value-too-long-and-pattern-non-member",
    "not-a-number",
    "malformed-entity",
    "data-after-root",
    "unknown-version-label",
];

fn empty(name: &str) -> RefNode {
    elem_node(name, vec![])
}

/// apply one injection of the given class; returns false if the class is not applicable to this document
fn inject(rng: &mut Rng, doc: &mut RefDoc, version: AutosarVersion, class: &str, post: &mut Vec<(String, String)>) -> bool {
    let mut sites = Vec::new();
    collect_sites(&doc.root, ElementType::ROOT, version, &mut Vec::new(), &mut sites);
    // try a number of random sites
    for _ in 0..60 {
        let site = &sites[rng.below(sites.len())];
        let t = site.etype;
        let path = site.path.clone();
        let bit = version as u32;
        match class {
            "unknown-element" => {
                if t.content_mode() == ContentMode::Characters {
                    continue;
                }
                let n = node_mut(&mut doc.root, &path);
                let pos = rng.below(n.items.len() + 1);
                n.items.insert(pos, RefItem::Elem(empty("NOT-AN-AUTOSAR-ELEMENT")));
                return true;
            }
            "foreign-element" => {
                if t.content_mode() == ContentMode::Characters {
                    continue;
                }
                let name = ELEMENT_NAME_LISTING[rng.below(ELEMENT_NAME_LISTING.len())].0;
                if t.find_sub_element(name, u32::MAX).is_some() {
                    continue;
                }
                let n = node_mut(&mut doc.root, &path);
                let pos = rng.below(n.items.len() + 1);
                n.items.insert(pos, RefItem::Elem(empty(name.to_str())));
                return true;
            }
            "version-foreign-element" => {
                let cands: Vec<ElementName> = t.sub_element_spec_iter().filter(|(name, _, mask, _)| mask & bit == 0 && t.find_sub_element(*name, bit).is_none()).map(|(n, ..)| n).collect();
                let Some(name) = rng.pick_opt(&cands).copied() else { continue };
                let n = node_mut(&mut doc.root, &path);
                let pos = rng.below(n.items.len() + 1);
                n.items.insert(pos, RefItem::Elem(empty(name.to_str())));
                return true;
            }
            "version-foreign-attribute" => {
                let cands: Vec<(AttributeName, &'static CharacterDataSpec)> = t.attribute_spec_iter().filter(|(a, _, _)| t.find_attribute_spec(*a).is_some_and(|s| s.version & bit == 0)).map(|(a, s, _)| (a, s)).collect();
                let Some((attr, spec)) = rng.pick_opt(&cands).copied() else { continue };
                // a value that is fine for the type in some version, so that only the version of the attribute is wrong
                let value = match spec {
                    CharacterDataSpec::Enum { items } => items[0].0.to_str().to_string(),
                    CharacterDataSpec::Pattern { check_fn, max_length, .. } => match crate::values::pattern_members(*check_fn, *max_length).first() {
                        Some(m) => (*m).to_string(),
                        None => continue,
                    },
                    CharacterDataSpec::String { .. } => "x".to_string(),
                    CharacterDataSpec::UnsignedInteger => "1".to_string(),
                    CharacterDataSpec::Float => "1.5".to_string(),
                };
                let n = node_mut(&mut doc.root, &path);
                if n.attrs.iter().any(|(k, _)| k == attr.to_str()) {
                    continue;
                }
                n.attrs.push((attr.to_str().to_string(), value));
                return true;
            }
            "version-foreign-enum-value" => {
                if let Some(CharacterDataSpec::Enum { items }) = t.chardata_spec() {
                    let foreign: Vec<EnumItem> = items.iter().filter(|(_, m)| m & bit == 0).map(|(i, _)| *i).collect();
                    let Some(item) = rng.pick_opt(&foreign) else { continue };
                    let n = node_mut(&mut doc.root, &path);
                    n.items = vec![RefItem::Text(item.to_str().to_string(), 0, 0)];
                    return true;
                }
                // or an attribute
                let cands: Vec<(AttributeName, EnumItem)> = t
                    .attribute_spec_iter()
                    .filter_map(|(a, s, _)| match s {
                        CharacterDataSpec::Enum { items } => items.iter().find(|(_, m)| m & bit == 0).map(|(i, _)| (a, *i)),
                        _ => None,
                    })
                    .filter(|(a, _)| t.find_attribute_spec(*a).is_some_and(|s| s.version & bit != 0))
                    .collect();
                let Some((attr, item)) = rng.pick_opt(&cands).copied() else { continue };
                let n = node_mut(&mut doc.root, &path);
                n.attrs.retain(|(k, _)| k != attr.to_str());
                n.attrs.push((attr.to_str().to_string(), item.to_str().to_string()));
                return true;
            }
            "choice-conflict" => {
                let n_ro = node_mut(&mut doc.root, &path);
                let kids: Vec<(usize, String)> = n_ro.items.iter().enumerate().filter_map(|(i, it)| if let RefItem::Elem(c) = it { Some((i, c.name.clone())) } else { None }).collect();
                let Some((ki, kname)) = rng.pick_opt(&kids).cloned() else { continue };
                let Some((_, kidx)) = ElementName::from_str(&kname).ok().and_then(|kn| t.find_sub_element(kn, bit)) else { continue };
                let alts: Vec<ElementName> = t
                    .sub_element_spec_iter()
                    .filter(|(_, _, mask, _)| mask & bit != 0)
                    .filter_map(|(name, ..)| t.find_sub_element(name, bit).map(|(_, idx)| (name, idx)))
                    .filter(|(_, idx)| *idx != kidx && t.find_common_group(&kidx, idx).content_mode() == ContentMode::Choice)
                    .map(|(name, _)| name)
                    .collect();
                let Some(alt) = rng.pick_opt(&alts).copied() else { continue };
                let mut new = empty(alt.to_str());
                // a named alternative needs its SHORT-NAME so that the only defect is the conflict
                if child_type(t, alt, version).is_some_and(|at| at.is_named_in_version(version)) {
                    new.items.push(RefItem::Elem(text_node("SHORT-NAME", "conflicting")));
                }
                let n = node_mut(&mut doc.root, &path);
                n.items.insert(ki + 1, RefItem::Elem(new));
                return true;
            }
            "multiplicity-excess" => {
                let n_ro = node_mut(&mut doc.root, &path);
                let kids: Vec<(usize, String)> = n_ro.items.iter().enumerate().filter_map(|(i, it)| if let RefItem::Elem(c) = it { Some((i, c.name.clone())) } else { None }).collect();
                let Some((ki, kname)) = rng.pick_opt(&kids).cloned() else { continue };
                let Some((_, kidx)) = ElementName::from_str(&kname).ok().and_then(|kn| t.find_sub_element(kn, bit)) else { continue };
                let mode = t.get_sub_element_container_mode(&kidx);
                if !(mode == ContentMode::Sequence || mode == ContentMode::Choice) || t.get_sub_element_multiplicity(&kidx) == Some(ElementMultiplicity::Any) {
                    continue;
                }
                let n = node_mut(&mut doc.root, &path);
                let copy = n.items[ki].clone();
                // adjacent or with other siblings in between
                let pos = if rng.chance(1, 2) { ki + 1 } else { rng.below(n.items.len() + 1) };
                n.items.insert(pos, copy);
                return true;
            }
            "missing-short-name" => {
                if !t.is_named_in_version(version) {
                    continue;
                }
                let n = node_mut(&mut doc.root, &path);
                let before = n.items.len();
                n.items.retain(|it| !matches!(it, RefItem::Elem(c) if c.name == "SHORT-NAME"));
                if n.items.len() == before {
                    continue;
                }
                return true;
            }
            "missing-required-attribute" => {
                let required: Vec<AttributeName> = t.attribute_spec_iter().filter(|(_, _, r)| *r).map(|(a, ..)| a).collect();
                let n = node_mut(&mut doc.root, &path);
                let Some(attr) = required.iter().find(|a| n.attrs.iter().any(|(k, _)| k == a.to_str())) else { continue };
                n.attrs.retain(|(k, _)| k != attr.to_str());
                return true;
            }
            "value-too-long" => {
                let max = match t.chardata_spec() {
                    Some(CharacterDataSpec::String { max_length: Some(m), .. }) => *m,
                    Some(CharacterDataSpec::Pattern { max_length: Some(m), regex, .. }) if regex.starts_with("[a-zA-Z]") => *m,
                    _ => continue,
                };
                let n = node_mut(&mut doc.root, &path);
                if n.name == "SHORT-NAME" || n.items.iter().any(|i| matches!(i, RefItem::Elem(_))) {
                    continue;
                }
                n.items = vec![RefItem::Text("y".repeat(max + 1), 0, 0)];
                return true;
            }
            "value-too-long-and-pattern-non-member" => {
                // one value with two defects: both modes must name the same one first
                let Some(CharacterDataSpec::Pattern { regex, max_length: Some(max), .. }) = t.chardata_spec() else { continue };
                let Ok(dfa) = Dfa::new(regex) else { continue };
                let text = format!("{}{}", rng.pick(&["0", "!", " x", "-"]), "y!".repeat(max / 2 + 1));
                if dfa.matches(text.as_bytes()) {
                    continue;
                }
                let n = node_mut(&mut doc.root, &path);
                if n.items.iter().any(|i| matches!(i, RefItem::Elem(_))) {
                    continue;
                }
                n.items = vec![RefItem::Text(text, 0, 0)];
                return true;
            }
            "pattern-non-member" => {
                let Some(CharacterDataSpec::Pattern { regex, .. }) = t.chardata_spec() else { continue };
                let Ok(dfa) = Dfa::new(regex) else { continue };
                let cands = ["", "!", "a b", "\u{e4}", "0x", "-", "1.2", "a/b/", "//", "00:", "%", "A B", "9a", "_", "0b2", "1e", "+-1"];
                let non: Vec<&str> = cands.iter().copied().filter(|c| !c.is_empty() && !dfa.matches(c.as_bytes())).collect();
                let Some(text) = rng.pick_opt(&non) else { continue };
                let n = node_mut(&mut doc.root, &path);
                if n.name == "SHORT-NAME" {
                    continue;
                }
                n.items = vec![RefItem::Text((*text).to_string(), 0, 0)];
                return true;
            }
            "not-a-number" => {
                if !matches!(t.chardata_spec(), Some(CharacterDataSpec::UnsignedInteger | CharacterDataSpec::Float)) {
                    continue;
                }
                let n = node_mut(&mut doc.root, &path);
                n.items = vec![RefItem::Text((*rng.pick(&["12abc", "one", "--1", "1,5", "0x10"])).to_string(), 0, 0)];
                return true;
            }
            "malformed-entity" => {
                if !matches!(t.chardata_spec(), Some(CharacterDataSpec::String { max_length: None, .. })) || t.content_mode() != ContentMode::Characters {
                    continue;
                }
                let n = node_mut(&mut doc.root, &path);
                n.items = vec![RefItem::Text("a @@BADENTITY@@ b".to_string(), 0, 0)];
                post.push(("@@BADENTITY@@".to_string(), (*rng.pick(&["&bogus;", "&#xZZ;", "&", "&#99999999;", "&amp"])).to_string()));
                return true;
            }
            "data-after-root" => {
                post.push(("</AUTOSAR>".to_string(), format!("</AUTOSAR>{}", rng.pick(&["<X/>", "trailing", "<AUTOSAR/>", "<!-- c --><Y></Y>"]))));
                return true;
            }
            "unknown-version-label" => {
                for (k, v) in doc.root.attrs.iter_mut() {
                    if k == "xsi:schemaLocation" {
                        *v = format!("http://autosar.org/schema/r4.0 {}", rng.pick(&["AUTOSAR_9-9-9.xsd", "AUTOSAR_00099.xsd", "autosar.xsd", ""]));
                    }
                }
                return true;
            }
            _ => return false,
        }
    }
    false
}

fn apply_post(bytes: Vec<u8>, post: &[(String, String)]) -> Vec<u8> {
    let mut text = String::from_utf8_lossy(&bytes).into_owned();
    for (from, to) in post {
        if let Some(p) = text.rfind(from.as_str()) {
            text.replace_range(p..p + from.len(), to);
        }
    }
    text.into_bytes()
}

pub fn mutate_bytes_pub(rng: &mut Rng, bytes: &[u8]) -> Vec<u8> {
    mutate_bytes(rng, bytes)
}

/// byte level mutations for the differential oracle
fn mutate_bytes(rng: &mut Rng, bytes: &[u8]) -> Vec<u8> {
    let mut b = bytes.to_vec();
    let tags: Vec<usize> = b.iter().enumerate().filter(|(_, c)| **c == b'<').map(|(i, _)| i).collect();
    for _ in 0..rng.range(1, 3) {
        if b.len() < 50 || tags.len() < 4 {
            break;
        }
        match rng.below(7) {
            0 => {
                // delete a token
                let s = tags[rng.below(tags.len())].min(b.len() - 1);
                let e = b[s..].iter().position(|c| *c == b'>').map_or(b.len(), |p| s + p + 1);
                b.drain(s..e);
            }
            1 => {
                // duplicate a token
                let s = tags[rng.below(tags.len())].min(b.len() - 1);
                let e = b[s..].iter().position(|c| *c == b'>').map_or(b.len(), |p| s + p + 1);
                let tok = b[s..e].to_vec();
                let at = e.min(b.len());
                b.splice(at..at, tok);
            }
            2 => {
                let at = rng.below(b.len());
                b.truncate(at);
            }
            3 => {
                let at = rng.below(b.len());
                b[at] = *rng.pick(&[b'<', b'>', b'"', b'\'', b'&', b' ', b'/', b'=', 0xff, b'\n']);
            }
            4 => {
                // swap two tokens
                let s1 = tags[rng.below(tags.len())].min(b.len() - 1);
                let e1 = b[s1..].iter().position(|c| *c == b'>').map_or(b.len(), |p| s1 + p + 1);
                let tok = b[s1..e1].to_vec();
                b.drain(s1..e1);
                let at = rng.below(b.len());
                b.splice(at..at, tok);
            }
            5 => {
                let at = rng.below(b.len());
                b.insert(at, *rng.pick(&[b'<', b'>', b'&', b'"', b' ']));
            }
            _ => {
                let at = rng.below(b.len());
                let n = rng.range(1, 12).min(b.len() - at);
                b.drain(at..at + n);
            }
        }
    }
    b
}

pub fn run(rep: &mut Report, tier: &str) {
    crate::panicmon::install();
    let thorough = tier == "thorough";
    let seed = rep.seed;
    rep.rule = "O1 (differential): every input - chunk documents of all 21 versions, their byte/token level mutations, documents with injected defects - is loaded strictly and leniently and the outcomes are compared. O2 (no holes): a strictly accepted chunk document gets exactly one injected defect whose illegality is computed from the specification tables (15 classes); strict loading must reject it. Distinct by document bytes; non-trivial = every document (each has a definite expected relation)".into();
    rep.assumptions.push("only injections whose illegality follows from the specification tables are judged; sequence order is documented as not checked and never injected".into());
    let n = if thorough { 400_000 } else { 12_000 };
    let shards = 64;
    let per = n / shards;
    run_shards(rep, shards, cpu_count(), 64, |shard, sub| {
        for j in 0..per {
            let case = (shard * per + j) as u64;
            let mut rng = Rng::derive(seed, "c08", case);
            let version = random_version(&mut rng);
            let vary_values = rng.chance(1, 2);
            let (doc, _) = random_chunk_doc(&mut rng, seed, version, 3, vary_values);
            let vary = rng.chance(1, 2);
            let style = Style { vary, literal_gt_in_attributes: false };
            let bytes = refxml::render(&mut rng, style, &doc);
            let (s_ok, _) = differential(sub, &bytes, "valid");
            if !s_ok {
                sub.count("base_documents_rejected_strictly(skipped for O2)", 1);
            }
            // O1 on mutations
            let m = mutate_bytes(&mut rng, &bytes);
            differential(sub, &m, "mutated");
            if !s_ok {
                continue;
            }
            // O2
            let class = CLASSES[(case % CLASSES.len() as u64) as usize];
            let mut bad = doc.clone();
            let mut post = Vec::new();
            if !inject(&mut rng, &mut bad, version, class, &mut post) {
                sub.count(&format!("injection_not_applicable.{class}"), 1);
                continue;
            }
            let bad_bytes = apply_post(refxml::render(&mut rng, style, &bad), &post);
            sub.count(&format!("injected.{class}"), 1);
            sub.count("injected", 1);
            let (s2, _) = differential(sub, &bad_bytes, "injected");
            if s2 {
                viol(sub, "hole/strict-accepts-defect", class, format!("a {version:?} document with one injected defect of class '{class}' is accepted by strict loading"), &bad_bytes);
            }
            if case < 3 {
                sub.sample(J::obj().with("class", J::s(class)).with("version", J::s(version.filename())).with("strict_accepts", J::Bool(s2)).with("text", J::s(show_bytes(&bad_bytes, 600))));
            }
        }
    });
    for class in CLASSES {
        rep.require(&format!("injected.{class}"), if thorough { 500 } else { 15 });
    }
    rep.require("both_accept.valid", (n / 3) as u64);
    rep.require("strict_rejects_lenient_warns.injected", 100);
}
