//! C08 — strict and lenient validation agree; strict validation has no holes (DOC engine)

use crate::c18::ELEMENT_NAME_LISTING;
use crate::docgen::*;
use crate::json::{show_bytes, J};
use crate::refcmp::child_type;
use crate::refxml::{self, RefDoc, RefItem, RefNode, Style};
use crate::report::{cpu_count, run_shards, Report};
use crate::rng::{hash_bytes, Rng};
use crate::rx::Dfa;
use crate::specwalk::SpecWalk;
use crate::walk::{dump_tree, DumpOpts, Tree};
use autosar_data::*;
use autosar_data_specification::{AttributeName, CharacterDataSpec, ContentMode, ElementMultiplicity, ElementType};
use std::str::FromStr;

fn viol(rep: &mut Report, rule: &str, pred: &str, detail: String, bytes: &[u8]) {
    rep.violation(
        rule,
        &format!("C08:{rule}:{pred}"),
        &format!("{detail}\n  document ({} bytes): {}", bytes.len(), show_bytes(bytes, 900)),
        J::obj().with("engine", J::s("doc")).with("document_hex", J::s(crate::json::hex_encode(&bytes[..bytes.len().min(20000)]))),
    );
}

fn err_key(e: &AutosarDataError) -> (String, usize, String) {
    let line = match e {
        AutosarDataError::ParserError { line, .. } | AutosarDataError::LexerError { line, .. } => *line,
        _ => 0,
    };
    (crate::hist::err_variant(e), line, e.to_string())
}

/// O1: the differential oracle for one input
pub fn differential(rep: &mut Report, bytes: &[u8], class: &str) -> (bool, bool) {
    rep.evaluations += 1;
    let ms = AutosarModel::new();
    let ml = AutosarModel::new();
    let rs = crate::panicmon::catch(|| ms.load_buffer(bytes, "doc.arxml", true));
    let rl = crate::panicmon::catch(|| ml.load_buffer(bytes, "doc.arxml", false));
    let (rs, rl) = match (rs, rl) {
        (Ok(a), Ok(b)) => (a, b),
        _ => {
            rep.count("loader_panicked(belongs to C02)", 1);
            return (false, false);
        }
    };
    rep.distinct.insert(hash_bytes(bytes));
    match (&rs, &rl) {
        (Ok((_, ws)), Ok((_, wl))) => {
            rep.count(&format!("both_accept.{class}"), 1);
            if !ws.is_empty() {
                viol(rep, "differential/strict-returns-warnings", "", format!("{} warnings", ws.len()), bytes);
            }
            if !wl.is_empty() {
                viol(
                    rep,
                    "differential/strict-accepts-what-lenient-warns-about",
                    &crate::hist::err_variant(&wl[0]),
                    format!("strict loading succeeds, lenient loading returns warnings: {:?}", wl.iter().map(|w| w.to_string()).take(3).collect::<Vec<_>>()),
                    bytes,
                );
            } else {
                let opts = DumpOpts::default();
                let a = dump_tree(&Tree::of_model(&ms), &opts);
                let b = dump_tree(&Tree::of_model(&ml), &opts);
                if a != b {
                    viol(rep, "differential/models-differ", "", crate::histprops::first_diff(&a, &b), bytes);
                }
            }
        }
        (Err(es), Ok((_, wl))) => {
            rep.count(&format!("strict_rejects_lenient_warns.{class}"), 1);
            if wl.is_empty() {
                viol(rep, "differential/strict-rejects-lenient-silent", &crate::hist::err_variant(es), format!("strict loading fails with '{es}', lenient loading succeeds without any warning"), bytes);
            } else if err_key(es) != err_key(&wl[0]) {
                viol(
                    rep,
                    "differential/strict-error-is-not-first-warning",
                    &format!("{}/{}", crate::hist::err_variant(es), crate::hist::err_variant(&wl[0])),
                    format!("strict error: {:?}; first lenient warning: {:?}", err_key(es), err_key(&wl[0])),
                    bytes,
                );
            }
        }
        (Err(_), Err(_)) => rep.count(&format!("both_reject.{class}"), 1),
        (Ok(_), Err(el)) => {
            viol(rep, "differential/lenient-rejects-strict-accepts", &crate::hist::err_variant(el), format!("lenient loading fails with '{el}', strict loading succeeds"), bytes);
        }
    }
    (rs.is_ok(), rl.is_ok())
}

// ------------------------------------------------------------------------------------------------
// injections

struct Site {
    path: Vec<usize>,
    etype: ElementType,
}

fn collect_sites(n: &RefNode, etype: ElementType, version: AutosarVersion, path: &mut Vec<usize>, out: &mut Vec<Site>) {
    out.push(Site { path: path.clone(), etype });
    for (i, item) in n.items.iter().enumerate() {
        if let RefItem::Elem(c) = item {
            if let Some(ct) = type_of(etype, &c.name, version) {
                path.push(i);
                collect_sites(c, ct, version, path, out);
                path.pop();
            }
        }
    }
}

fn node_mut<'a>(root: &'a mut RefNode, path: &[usize]) -> &'a mut RefNode {
    let mut cur = root;
    for i in path {
        cur = match &mut cur.items[*i] {
            RefItem::Elem(c) => c,
            RefItem::Text(..) => unreachable!(),
        };
    }
    cur
}

pub const CLASSES: [&str; 16] = [
    "unknown-element",
    "foreign-element",
    "version-foreign-element",
    "version-foreign-attribute",
    "version-foreign-enum-value",
    "choice-conflict",
    "multiplicity-excess",
    "missing-short-name",
    "missing-required-attribute",
    "value-too-long",
    "pattern-non-member",
    "value-too-long-and-pattern-non-member",
    "not-a-number",
    "malformed-entity",
    "data-after-root",
    "unknown-version-label",
];

fn empty(name: &str) -> RefNode {
    elem_node(name, vec![])
}

/// apply one injection of the given class; returns false if the class is not applicable to this document
fn inject(rng: &mut Rng, doc: &mut RefDoc, version: AutosarVersion, class: &str, post: &mut Vec<(String, String)>) -> bool {
    let mut sites = Vec::new();
    collect_sites(&doc.root, ElementType::ROOT, version, &mut Vec::new(), &mut sites);
    // try a number of random sites
    for _ in 0..60 {
        let site = &sites[rng.below(sites.len())];
        let t = site.etype;
        let path = site.path.clone();
        let bit = version as u32;
        match class {
            "unknown-element" => {
                if t.content_mode() == ContentMode::Characters {
                    continue;
                }
                let n = node_mut(&mut doc.root, &path);
                let pos = rng.below(n.items.len() + 1);
                n.items.insert(pos, RefItem::Elem(empty("NOT-AN-AUTOSAR-ELEMENT")));
                return true;
            }
            "foreign-element" => {
                if t.content_mode() == ContentMode::Characters {
                    continue;
                }
                let name = ELEMENT_NAME_LISTING[rng.below(ELEMENT_NAME_LISTING.len())].0;
                if t.find_sub_element(name, u32::MAX).is_some() {
                    continue;
                }
                let n = node_mut(&mut doc.root, &path);
                let pos = rng.below(n.items.len() + 1);
                n.items.insert(pos, RefItem::Elem(empty(name.to_str())));
                return true;
            }
            "version-foreign-element" => {
                let cands: Vec<ElementName> = t.sub_element_spec_iter().filter(|(name, _, mask, _)| mask & bit == 0 && t.find_sub_element(*name, bit).is_none()).map(|(n, ..)| n).collect();
                let Some(name) = rng.pick_opt(&cands).copied() else { continue };
                let n = node_mut(&mut doc.root, &path);
                let pos = rng.below(n.items.len() + 1);
                n.items.insert(pos, RefItem::Elem(empty(name.to_str())));
                return true;
            }
            "version-foreign-attribute" => {
                let cands: Vec<(AttributeName, &'static CharacterDataSpec)> = t.attribute_spec_iter().filter(|(a, _, _)| t.find_attribute_spec(*a).is_some_and(|s| s.version & bit == 0)).map(|(a, s, _)| (a, s)).collect();
                let Some((attr, spec)) = rng.pick_opt(&cands).copied() else { continue };
                // a value that is fine for the type in some version, so that only the version of the attribute is wrong
                let value = match spec {
                    CharacterDataSpec::Enum { items } => items[0].0.to_str().to_string(),
                    CharacterDataSpec::Pattern { check_fn, max_length, .. } => match crate::values::pattern_members(*check_fn, *max_length).first() {
                        Some(m) => (*m).to_string(),
                        None => continue,
                    },
                    CharacterDataSpec::String { .. } => "x".to_string(),
                    CharacterDataSpec::UnsignedInteger => "1".to_string(),
                    CharacterDataSpec::Float => "1.5".to_string(),
                };
                let n = node_mut(&mut doc.root, &path);
                if n.attrs.iter().any(|(k, _)| k == attr.to_str()) {
                    continue;
                }
                n.attrs.push((attr.to_str().to_string(), value));
                return true;
            }
            "version-foreign-enum-value" => {
                if let Some(CharacterDataSpec::Enum { items }) = t.chardata_spec() {
                    let foreign: Vec<EnumItem> = items.iter().filter(|(_, m)| m & bit == 0).map(|(i, _)| *i).collect();
                    let Some(item) = rng.pick_opt(&foreign) else { continue };
                    let n = node_mut(&mut doc.root, &path);
                    n.items = vec![RefItem::Text(item.to_str().to_string(), 0, 0)];
                    return true;
                }
                // or an attribute
                let cands: Vec<(AttributeName, EnumItem)> = t
                    .attribute_spec_iter()
                    .filter_map(|(a, s, _)| match s {
                        CharacterDataSpec::Enum { items } => items.iter().find(|(_, m)| m & bit == 0).map(|(i, _)| (a, *i)),
                        _ => None,
                    })
                    .filter(|(a, _)| t.find_attribute_spec(*a).is_some_and(|s| s.version & bit != 0))
                    .collect();
                let Some((attr, item)) = rng.pick_opt(&cands).copied() else { continue };
                let n = node_mut(&mut doc.root, &path);
                n.attrs.retain(|(k, _)| k != attr.to_str());
                n.attrs.push((attr.to_str().to_string(), item.to_str().to_string()));
                return true;
            }
            "choice-conflict" => {
                let n_ro = node_mut(&mut doc.root, &path);
                let kids: Vec<(usize, String)> = n_ro.items.iter().enumerate().filter_map(|(i, it)| if let RefItem::Elem(c) = it { Some((i, c.name.clone())) } else { None }).collect();
                let Some((ki, kname)) = rng.pick_opt(&kids).cloned() else { continue };
                let Some((_, kidx)) = ElementName::from_str(&kname).ok().and_then(|kn| t.find_sub_element(kn, bit)) else { continue };
                let alts: Vec<ElementName> = t
                    .sub_element_spec_iter()
                    .filter(|(_, _, mask, _)| mask & bit != 0)
                    .filter_map(|(name, ..)| t.find_sub_element(name, bit).map(|(_, idx)| (name, idx)))
                    .filter(|(_, idx)| *idx != kidx && t.find_common_group(&kidx, idx).content_mode() == ContentMode::Choice)
                    .map(|(name, _)| name)
                    .collect();
                let Some(alt) = rng.pick_opt(&alts).copied() else { continue };
                let mut new = empty(alt.to_str());
                // a named alternative needs its SHORT-NAME so that the only defect is the conflict
                if child_type(t, alt, version).is_some_and(|at| at.is_named_in_version(version)) {
                    new.items.push(RefItem::Elem(text_node("SHORT-NAME", "conflicting")));
                }
                let n = node_mut(&mut doc.root, &path);
                n.items.insert(ki + 1, RefItem::Elem(new));
                return true;
            }
            "multiplicity-excess" => {
                let n_ro = node_mut(&mut doc.root, &path);
                let kids: Vec<(usize, String)> = n_ro.items.iter().enumerate().filter_map(|(i, it)| if let RefItem::Elem(c) = it { Some((i, c.name.clone())) } else { None }).collect();
                let Some((ki, kname)) = rng.pick_opt(&kids).cloned() else { continue };
                let Some((_, kidx)) = ElementName::from_str(&kname).ok().and_then(|kn| t.find_sub_element(kn, bit)) else { continue };
                let mode = t.get_sub_element_container_mode(&kidx);
                if !(mode == ContentMode::Sequence || mode == ContentMode::Choice) || t.get_sub_element_multiplicity(&kidx) == Some(ElementMultiplicity::Any) {
                    continue;
                }
                let n = node_mut(&mut doc.root, &path);
                let copy = n.items[ki].clone();
                // adjacent or with other siblings in between
                let pos = if rng.chance(1, 2) { ki + 1 } else { rng.below(n.items.len() + 1) };
                n.items.insert(pos, copy);
                return true;
            }
            "missing-short-name" => {
                if !t.is_named_in_version(version) {
                    continue;
                }
                let n = node_mut(&mut doc.root, &path);
                let before = n.items.len();
                n.items.retain(|it| !matches!(it, RefItem::Elem(c) if c.name == "SHORT-NAME"));
                if n.items.len() == before {
                    continue;
                }
                return true;
            }
            "missing-required-attribute" => {
                let required: Vec<AttributeName> = t.attribute_spec_iter().filter(|(_, _, r)| *r).map(|(a, ..)| a).collect();
                let n = node_mut(&mut doc.root, &path);
                let Some(attr) = required.iter().find(|a| n.attrs.iter().any(|(k, _)| k == a.to_str())) else { continue };
                n.attrs.retain(|(k, _)| k != attr.to_str());
                return true;
            }
            "value-too-long" => {
                let max = match t.chardata_spec() {
                    Some(CharacterDataSpec::String { max_length: Some(m), .. }) => *m,
                    Some(CharacterDataSpec::Pattern { max_length: Some(m), regex, .. }) if regex.starts_with("[a-zA-Z]") => *m,
                    _ => continue,
                };
                let n = node_mut(&mut doc.root, &path);
                if n.name == "SHORT-NAME" || n.items.iter().any(|i| matches!(i, RefItem::Elem(_))) {
                    continue;
                }
                n.items = vec![RefItem::Text("y".repeat(max + 1), 0, 0)];
                return true;
            }
            "value-too-long-and-pattern-non-member" => {
                // one value with two defects: both modes must name the same one first
                let Some(CharacterDataSpec::Pattern { regex, max_length: Some(max), .. }) = t.chardata_spec() else { continue };
                let Ok(dfa) = Dfa::new(regex) else { continue };
                let text = format!("{}{}", rng.pick(&["0", "!", " x", "-"]), "y!".repeat(max / 2 + 1));
                if dfa.matches(text.as_bytes()) {
                    continue;
                }
                let n = node_mut(&mut doc.root, &path);
                if n.items.iter().any(|i| matches!(i, RefItem::Elem(_))) {
                    continue;
                }
                n.items = vec![RefItem::Text(text, 0, 0)];
                return true;
            }
            "pattern-non-member" => {
                let Some(CharacterDataSpec::Pattern { regex, .. }) = t.chardata_spec() else { continue };
                let Ok(dfa) = Dfa::new(regex) else { continue };
                let cands = ["", "!", "a b", "\u{e4}", "0x", "-", "1.2", "a/b/", "//", "00:", "%", "A B", "9a", "_", "0b2", "1e", "+-1"];
                let non: Vec<&str> = cands.iter().copied().filter(|c| !c.is_empty() && !dfa.matches(c.as_bytes())).collect();
                let Some(text) = rng.pick_opt(&non) else { continue };
                let n = node_mut(&mut doc.root, &path);
                if n.name == "SHORT-NAME" {
                    continue;
                }
                n.items = vec![RefItem::Text((*text).to_string(), 0, 0)];
                return true;
            }
            "not-a-number" => {
                if !matches!(t.chardata_spec(), Some(CharacterDataSpec::UnsignedInteger | CharacterDataSpec::Float)) {
                    continue;
                }
                let n = node_mut(&mut doc.root, &path);
                n.items = vec![RefItem::Text((*rng.pick(&["12abc", "one", "--1", "1,5", "0x10"])).to_string(), 0, 0)];
                return true;
            }
            "malformed-entity" => {
                if !matches!(t.chardata_spec(), Some(CharacterDataSpec::String { max_length: None, .. })) || t.content_mode() != ContentMode::Characters {
                    continue;
                }
                let n = node_mut(&mut doc.root, &path);
                n.items = vec![RefItem::Text("a @@BADENTITY@@ b".to_string(), 0, 0)];
                post.push(("@@BADENTITY@@".to_string(), (*rng.pick(&["&bogus;", "&#xZZ;", "&", "&#99999999;", "&amp"])).to_string()));
                return true;
            }
            "data-after-root" => {
                post.push(("</AUTOSAR>".to_string(), format!("</AUTOSAR>{}", rng.pick(&["<X/>", "trailing", "<AUTOSAR/>", "<!-- c --><Y></Y>"]))));
                return true;
            }
            "unknown-version-label" => {
                for (k, v) in doc.root.attrs.iter_mut() {
                    if k == "xsi:schemaLocation" {
                        *v = format!("http://autosar.org/schema/r4.0 {}", rng.pick(&["AUTOSAR_9-9-9.xsd", "AUTOSAR_00099.xsd", "autosar.xsd", "", "AUTOSAR_4-3-1.xsd", "AUTOSAR_4-4-0.xsd", "AUTOSAR_4-5-0.xsd"]));
                    }
                }
                return true;
            }
            _ => return false,
        }
    }
    false
}

fn apply_post(bytes: Vec<u8>, post: &[(String, String)]) -> Vec<u8> {
    let mut text = String::from_utf8_lossy(&bytes).into_owned();
    for (from, to) in post {
        if let Some(p) = text.rfind(from.as_str()) {
            text.replace_range(p..p + from.len(), to);
        }
    }
    text.into_bytes()
}

pub fn mutate_bytes_pub(rng: &mut Rng, bytes: &[u8]) -> Vec<u8> {
    mutate_bytes(rng, bytes)
}

/// byte level mutations for the differential oracle
fn mutate_bytes(rng: &mut Rng, bytes: &[u8]) -> Vec<u8> {
    let mut b = bytes.to_vec();
    let tags: Vec<usize> = b.iter().enumerate().filter(|(_, c)| **c == b'<').map(|(i, _)| i).collect();
    for _ in 0..rng.range(1, 3) {
        if b.len() < 50 || tags.len() < 4 {
            break;
        }
        match rng.below(7) {
            0 => {
                // delete a token
                let s = tags[rng.below(tags.len())].min(b.len() - 1);
                let e = b[s..].iter().position(|c| *c == b'>').map_or(b.len(), |p| s + p + 1);
                b.drain(s..e);
            }
            1 => {
                // duplicate a token
                let s = tags[rng.below(tags.len())].min(b.len() - 1);
                let e = b[s..].iter().position(|c| *c == b'>').map_or(b.len(), |p| s + p + 1);
                let tok = b[s..e].to_vec();
                let at = e.min(b.len());
                b.splice(at..at, tok);
            }
            2 => {
                let at = rng.below(b.len());
                b.truncate(at);
            }
            3 => {
                let at = rng.below(b.len());
                b[at] = *rng.pick(&[b'<', b'>', b'"', b'\'', b'&', b' ', b'/', b'=', 0xff, b'\n']);
            }
            4 => {
                // swap two tokens
                let s1 = tags[rng.below(tags.len())].min(b.len() - 1);
                let e1 = b[s1..].iter().position(|c| *c == b'>').map_or(b.len(), |p| s1 + p + 1);
                let tok = b[s1..e1].to_vec();
                b.drain(s1..e1);
                let at = rng.below(b.len());
                b.splice(at..at, tok);
            }
            5 => {
                let at = rng.below(b.len());
                b.insert(at, *rng.pick(&[b'<', b'>', b'&', b'"', b' ']));
            }
            _ => {
                let at = rng.below(b.len());
                let n = rng.range(1, 12).min(b.len() - at);
                b.drain(at..at + n);
            }
        }
    }
    b
}

/// non-members of a pattern derived from its automaton: all words up to a small length over one printable
/// representative per byte class, and every access string of the minimal DFA extended by one and two symbols.
/// Only printable ASCII without XML meta characters and without blanks (the loader trims values), shortest first.
pub fn derived_non_members(d: &Dfa) -> Vec<String> {
    let ok = |b: u8| (0x21..=0x7e).contains(&b) && !matches!(b, b'<' | b'&' | b'>' | b'"' | b'\'');
    let sym_byte: Vec<Option<u8>> = (0..d.n_symbols).map(|s| (0x21u8..=0x7e).find(|b| d.byte_class[*b as usize] == s && ok(*b))).collect();
    let alphabet: Vec<u8> = sym_byte.iter().flatten().copied().collect();
    let maxlen = if alphabet.len() <= 6 { 5 } else if alphabet.len() <= 10 { 4 } else if alphabet.len() <= 24 { 3 } else { 2 };
    let mut out: Vec<Vec<u8>> = Vec::new();
    let mut level: Vec<Vec<u8>> = vec![Vec::new()];
    for _ in 0..maxlen {
        let mut next = Vec::new();
        for w in &level {
            for a in &alphabet {
                let mut x = w.clone();
                x.push(*a);
                next.push(x);
            }
        }
        out.extend(next.iter().cloned());
        level = next;
    }
    for acc in d.access_strings().iter().flatten() {
        let Some(base) = acc.iter().map(|s| sym_byte[*s]).collect::<Option<Vec<u8>>>() else { continue };
        for a in &alphabet {
            let mut x = base.clone();
            x.push(*a);
            for b in &alphabet {
                let mut y = x.clone();
                y.push(*b);
                out.push(y);
            }
            out.push(x);
        }
    }
    out.retain(|w| !w.is_empty() && !d.matches(w));
    out.sort_by(|a, b| a.len().cmp(&b.len()).then(a.cmp(b)));
    out.dedup();
    out.into_iter().filter_map(|w| String::from_utf8(w).ok()).collect()
}

/// directed part of O2 for pattern restricted values: at one pattern-typed element of the document, a run of
/// automaton-derived non-members (continuing where the previous document with this pattern stopped) must each be
/// rejected by strict loading
fn pattern_sweep(sub: &mut Report, rng: &mut Rng, doc: &RefDoc, version: AutosarVersion, style: Style, k: usize, run_len: usize) {
    thread_local! {
        static CACHE: std::cell::RefCell<std::collections::HashMap<String, Vec<String>>> = std::cell::RefCell::new(std::collections::HashMap::new());
    }
    let mut sites = Vec::new();
    collect_sites(&doc.root, ElementType::ROOT, version, &mut Vec::new(), &mut sites);
    let mut cands: Vec<(Vec<usize>, &'static str)> = Vec::new();
    for st in &sites {
        if let Some(CharacterDataSpec::Pattern { regex, .. }) = st.etype.chardata_spec() {
            let mut probe = doc.clone();
            let n = node_mut(&mut probe.root, &st.path);
            if n.name != "SHORT-NAME" && !n.items.iter().any(|i| matches!(i, RefItem::Elem(_))) {
                cands.push((st.path.clone(), regex));
            }
        }
    }
    // deterministic in the case number: which site, and where in the candidate list this run starts
    if cands.is_empty() {
        return;
    }
    let (path, regex) = cands[k % cands.len()].clone();
    let texts: Vec<String> = CACHE.with(|c| {
        let mut c = c.borrow_mut();
        let list = c.entry(regex.to_string()).or_insert_with(|| Dfa::new(regex).map(|d| derived_non_members(&d)).unwrap_or_default());
        if list.is_empty() {
            return Vec::new();
        }
        let start = (k / 3 * run_len) % list.len();
        (0..run_len.min(list.len())).map(|i| list[(start + i) % list.len()].clone()).collect()
    });
    for text in texts {
        let mut bad = doc.clone();
        node_mut(&mut bad.root, &path).items = vec![RefItem::Text(text.clone(), 0, 0)];
        let bytes = refxml::render(rng, style, &bad);
        sub.count("injected.pattern-non-member.derived-from-automaton", 1);
        sub.distinct_in("pattern_sweep.regexes", crate::rng::hash_bytes(regex.as_bytes()));
        let (s2, _) = differential(sub, &bytes, "injected");
        if s2 {
            // the signature names the pattern and the place where the value leaves its language (as C19 does), so that
            // the known deviations of four generated validators do not hide a hole in another one
            let key = Dfa::new(regex).map(|d| crate::c19::leave_key(&d, text.as_bytes())).unwrap_or_default();
            viol(sub, "hole/strict-accepts-defect", &format!("pattern-non-member:{regex}:{key}"), format!("a {version:?} document in which a value of pattern /{regex}/ is the non-member {text:?} is accepted by strict loading"), &bytes);
        }
    }
}

/// a shortest member of the pattern made of printable ASCII (None if the language needs other bytes)
fn derived_member(d: &Dfa) -> Option<String> {
    let ok = |b: u8| (0x21..=0x7e).contains(&b) && !matches!(b, b'<' | b'&' | b'>' | b'"' | b'\'');
    let sym_byte: Vec<Option<u8>> = (0..d.n_symbols).map(|s| (0x21u8..=0x7e).find(|b| d.byte_class[*b as usize] == s && ok(*b))).collect();
    let acc = d.access_strings();
    let mut best: Option<Vec<u8>> = None;
    for (st, a) in acc.iter().enumerate() {
        let Some(a) = a else { continue };
        if !d.accept[st] || a.is_empty() {
            continue;
        }
        if let Some(w) = a.iter().map(|s| sym_byte[*s]).collect::<Option<Vec<u8>>>() {
            if best.as_ref().is_none_or(|b| w.len() < b.len()) {
                best = Some(w);
            }
        }
    }
    best.and_then(|w| String::from_utf8(w).ok())
}

/// a document that consists of the chain of elements from the root to one element of type `t`, which carries `value`
/// as its content (attr = None) or as the value of the attribute `attr`
fn micro_doc(walk: &SpecWalk, t: ElementType, version: AutosarVersion, attr: Option<AttributeName>, value: &str) -> Vec<u8> {
    let path = walk.path_to_in(t, version).unwrap_or_else(|| walk.path_to(t));
    let mut s = crate::specdoc::header(version);
    for (i, (et, name, _)) in path.iter().enumerate() {
        let leaf = i + 1 == path.len();
        if leaf {
            match attr {
                Some(a) => s.push_str(&format!("<{name} {a}=\"{value}\">")),
                None => s.push_str(&format!("<{name}>{value}")),
            }
        } else {
            s.push_str(&format!("<{name}>"));
        }
        let next_is_short_name = path.get(i + 1).is_some_and(|(_, n, _)| *n == ElementName::ShortName);
        if et.is_named_in_version(version) && !next_is_short_name && !(leaf && attr.is_none()) {
            s.push_str(&format!("<SHORT-NAME>n{i}</SHORT-NAME>"));
        }
    }
    for (_, name, _) in path.iter().rev() {
        s.push_str(&format!("</{name}>"));
    }
    s.push_str("</AUTOSAR>");
    s.into_bytes()
}

/// directed part of O2 for pattern restricted values: for every pattern of the specification, at up to `sites`
/// element / attribute sites whose minimal document is accepted strictly with a member of the pattern, every
/// automaton-derived non-member must be rejected by strict loading
fn pattern_directed(rep: &mut Report, thorough: bool) {
    let walk = SpecWalk::new();
    let mut by_regex: std::collections::BTreeMap<&'static str, Vec<(ElementType, Option<AttributeName>, u32)>> = std::collections::BTreeMap::new();
    for info in &walk.types {
        let pv = crate::genmodel::path_versions(&walk, info.etype);
        if pv == 0 || info.etype == ElementType::ROOT {
            // (the root element is written by the document header, not by micro_doc)
            continue;
        }
        if let Some(CharacterDataSpec::Pattern { regex, .. }) = info.etype.chardata_spec() {
            by_regex.entry(regex).or_default().push((info.etype, None, pv));
        }
        for (an, spec, _) in info.etype.attribute_spec_iter() {
            if let CharacterDataSpec::Pattern { regex, .. } = spec {
                let av = info.etype.find_attribute_spec(an).map_or(0, |a| a.version);
                if pv & av != 0 {
                    by_regex.entry(regex).or_default().push((info.etype, Some(an), pv & av));
                }
            }
        }
    }
    let regexes: Vec<(&'static str, Vec<(ElementType, Option<AttributeName>, u32)>)> = by_regex.into_iter().collect();
    rep.count("pattern_directed.patterns_of_the_specification", regexes.len() as u64);
    let max_sites = if thorough { 8 } else { 2 };
    let (walk_ref, regexes_ref) = (&walk, &regexes);
    run_shards(rep, regexes.len(), cpu_count(), 16, |i, sub| {
        let (regex, sites) = &regexes_ref[i];
        let Ok(dfa) = Dfa::new(regex) else {
            sub.count("pattern_directed.patterns_without_automaton", 1);
            return;
        };
        let Some(member) = derived_member(&dfa) else {
            sub.count("pattern_directed.patterns_without_printable_member", 1);
            return;
        };
        let non = derived_non_members(&dfa);
        let mut used = 0;
        let (mut used_elem, mut used_attr) = (0, 0);
        for (t, attr, mask) in sites {
            if (attr.is_none() && used_elem >= max_sites) || (attr.is_some() && used_attr >= max_sites) {
                continue;
            }
            let Some(version) = crate::specwalk::ALL_VERSIONS.iter().rev().find(|v| mask & **v as u32 != 0).copied() else { continue };
            let base = micro_doc(walk_ref, *t, version, *attr, &member);
            let accepted = AutosarModel::new().load_buffer(&base, "base.arxml", true).is_ok();
            if !accepted {
                sub.count("pattern_directed.sites_whose_minimal_document_is_rejected(skipped)", 1);
                continue;
            }
            used += 1;
            if attr.is_some() {
                used_attr += 1;
                sub.count("pattern_directed.attribute_sites", 1);
            } else {
                used_elem += 1;
                sub.count("pattern_directed.element_sites", 1);
            }
            for text in &non {
                let bytes = micro_doc(walk_ref, *t, version, *attr, text);
                sub.count("pattern_directed.non_members_injected", 1);
                let (s2, _) = differential(sub, &bytes, "injected");
                if s2 {
                    let key = crate::c19::leave_key(&dfa, text.as_bytes());
                    viol(sub, "hole/strict-accepts-defect", &format!("pattern-non-member:{regex}:{key}"), format!("a {version:?} document in which {} of pattern /{regex}/ is the non-member {text:?} is accepted by strict loading", match attr { Some(a) => format!("the attribute {a}"), None => "a value".to_string() }), &bytes);
                }
            }
        }
        if used > 0 {
            sub.count("pattern_directed.patterns_swept", 1);
        } else {
            sub.count("pattern_directed.patterns_without_usable_site", 1);
        }
    });
    rep.require("pattern_directed.patterns_swept", 20);
    rep.require("pattern_directed.non_members_injected", 20_000);
}

pub fn run(rep: &mut Report, tier: &str) {
    crate::panicmon::install();
    let thorough = tier == "thorough";
    let seed = rep.seed;
    rep.rule = "O1 (differential): every input - chunk documents of all 21 versions, their byte/token level mutations, documents with injected defects - is loaded strictly and leniently and the outcomes are compared. O2 (no holes): a strictly accepted chunk document gets exactly one injected defect whose illegality is computed from the specification tables (15 classes); strict loading must reject it. Distinct by document bytes; non-trivial = every document (each has a definite expected relation)".into();
    rep.assumptions.push("only injections whose illegality follows from the specification tables are judged; sequence order is documented as not checked and never injected".into());
    let n = if thorough { 400_000 } else { 12_000 };
    let shards = 64;
    let per = n / shards;
    run_shards(rep, shards, cpu_count(), 64, |shard, sub| {
        for j in 0..per {
            let case = (shard * per + j) as u64;
            let mut rng = Rng::derive(seed, "c08", case);
            let version = random_version(&mut rng);
            let vary_values = rng.chance(1, 2);
            let (doc, _) = random_chunk_doc(&mut rng, seed, version, 3, vary_values);
            let vary = rng.chance(1, 2);
            let style = Style { vary, literal_gt_in_attributes: false };
            let bytes = refxml::render(&mut rng, style, &doc);
            let (s_ok, _) = differential(sub, &bytes, "valid");
            if !s_ok {
                sub.count("base_documents_rejected_strictly(skipped for O2)", 1);
            }
            // O1 on mutations
            let m = mutate_bytes(&mut rng, &bytes);
            differential(sub, &m, "mutated");
            if !s_ok {
                continue;
            }
            // O2
            let class = CLASSES[(case % CLASSES.len() as u64) as usize];
            let mut bad = doc.clone();
            let mut post = Vec::new();
            if class == "pattern-non-member" {
                pattern_sweep(sub, &mut rng, &doc, version, style, case as usize / CLASSES.len(), if thorough { 120 } else { 40 });
            }
            if !inject(&mut rng, &mut bad, version, class, &mut post) {
                sub.count(&format!("injection_not_applicable.{class}"), 1);
                continue;
            }
            let bad_bytes = apply_post(refxml::render(&mut rng, style, &bad), &post);
            sub.count(&format!("injected.{class}"), 1);
            sub.count("injected", 1);
            let (s2, _) = differential(sub, &bad_bytes, "injected");
            if s2 {
                viol(sub, "hole/strict-accepts-defect", class, format!("a {version:?} document with one injected defect of class '{class}' is accepted by strict loading"), &bad_bytes);
            }
            if case < 3 {
                sub.sample(J::obj().with("class", J::s(class)).with("version", J::s(version.filename())).with("strict_accepts", J::Bool(s2)).with("text", J::s(show_bytes(&bad_bytes, 600))));
            }
        }
    });
    pattern_directed(rep, thorough);
    for class in CLASSES {
        rep.require(&format!("injected.{class}"), if thorough { 500 } else { 15 });
    }
    rep.require("injected.pattern-non-member.derived-from-automaton", if thorough { 200_000 } else { 8_000 });
    rep.require("both_accept.valid", (n / 3) as u64);
    rep.require("strict_rejects_lenient_warns.injected", 100);
}
