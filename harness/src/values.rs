//! value generators per CharacterDataSpec

use crate::rng::Rng;
use autosar_data::CharacterData;
use autosar_data_specification::*;

pub const ITEM_NAMES: [&str; 11] = ["a", "a1", "a10", "a1b", "a_1", "b", "a2", "B", "ab", "a18446744073709551616", "a99999999999999999999999"];
pub const HOSTILE_NAMES: [&str; 8] = ["", "1a", "a b", "a/b", "ä", "a-b", " a", "_x"];

pub const PATTERN_CANDIDATES: [&str; 54] = [
    "fe80:0:abcd:1234:0:0:0:1", "%23.456d", "UNSPECIFIED", "ALL", "MAX-TEXT-SIZE", "ARRAY", "0.1.2_something", "aabb9_cd[x][y].cde", "0.0.0-ab-c.0.0+zz-Z", "Q_9", "-a b", "09AZ_-", "identifier-", "STRING",
    "0", "1", "7", "42", "-1", "+3", "0x1F", "0X1f", "0b101", "0B1", "017", "1.5", "-2.25", "1e3", "1.0E-2", "INF", "-INF",
    "NaN", "true", "false", "a", "A_b1", "abc", "Name_1", "/a", "/a/b", "/a1/b/a10", "a/b", "1.2.3", "1.2.3;a", "1.0.0-rc1",
    "2020-01-31", "2020-01-31T12:00:00Z", "12:34:56", "00:11:22:33:44:55", "192.168.0.1", "ANY", "x.y.z", "AA", "_",
];

pub fn long_name(n: usize) -> String {
    let mut s = String::from("L");
    while s.len() < n {
        s.push(char::from(b'a' + (s.len() % 26) as u8));
    }
    s
}

/// candidates accepted by a pattern checker
pub fn pattern_members(check_fn: fn(&[u8]) -> bool, max_length: Option<usize>) -> Vec<&'static str> {
    PATTERN_CANDIDATES
        .iter()
        .copied()
        .filter(|c| check_fn(c.as_bytes()) && c.len() <= max_length.unwrap_or(usize::MAX))
        .collect()
}

pub fn pattern_non_members(check_fn: fn(&[u8]) -> bool) -> Vec<&'static str> {
    let mut v: Vec<&'static str> = PATTERN_CANDIDATES.iter().copied().filter(|c| !check_fn(c.as_bytes())).collect();
    for extra in ["", "!", "a b", "\u{e4}"] {
        if !check_fn(extra.as_bytes()) {
            v.push(extra);
        }
    }
    v
}

const STRING_POOL: [&str; 16] = [
    "x",
    "hello world",
    "a&b",
    "1 < 2 > 0",
    "say \"hi\"",
    "it's",
    "tab\there",
    "line1\nline2",
    "\u{e4}\u{f6}\u{fc}\u{20ac}",
    "&amp;",
    "&#65;",
    "]]>",
    "<!--x-->",
    "a  b",
    "0",
    "/a/b",
];

/// a value inside the value space of `spec` for `version` (None if the space is empty, e.g. no enum item in this version)
pub fn valid_value(rng: &mut Rng, spec: &CharacterDataSpec, version: AutosarVersion) -> Option<CharacterData> {
    match spec {
        CharacterDataSpec::Enum { items } => {
            let ok: Vec<EnumItem> = items.iter().filter(|(_, m)| m & version as u32 != 0).map(|(i, _)| *i).collect();
            rng.pick_opt(&ok).map(|i| CharacterData::Enum(*i))
        }
        CharacterDataSpec::Pattern { check_fn, max_length, .. } => {
            let m = pattern_members(*check_fn, *max_length);
            rng.pick_opt(&m).map(|s| CharacterData::String((*s).to_string()))
        }
        CharacterDataSpec::String { max_length, .. } => {
            let s = *rng.pick(&STRING_POOL);
            if s.len() <= max_length.unwrap_or(usize::MAX) {
                Some(CharacterData::String(s.to_string()))
            } else {
                Some(CharacterData::String("x".to_string()))
            }
        }
        CharacterDataSpec::UnsignedInteger => Some(CharacterData::UnsignedInteger(match rng.below(6) {
            0 => 0,
            1 => 1,
            2 => u64::MAX,
            3 => u64::from(u32::MAX) + 1,
            _ => rng.next() >> rng.below(64),
        })),
        CharacterDataSpec::Float => Some(CharacterData::Float(match rng.below(11) {
            8 => f64::NAN,
            9 => f64::INFINITY,
            10 => f64::NEG_INFINITY,
            0 => 0.0,
            1 => -0.0,
            2 => 1.5,
            3 => f64::MAX,
            4 => f64::MIN_POSITIVE / 4.0,
            5 => -1e-7,
            6 => 123456789.125,
            _ => f64::from_bits(rng.next()),
        })),
    }
}

/// a value outside the value space of `spec`
pub fn invalid_value(rng: &mut Rng, spec: &CharacterDataSpec, version: AutosarVersion) -> CharacterData {
    match spec {
        CharacterDataSpec::Enum { items } => {
            let foreign: Vec<EnumItem> = items.iter().filter(|(_, m)| m & version as u32 == 0).map(|(i, _)| *i).collect();
            match rng.below(3) {
                0 if !foreign.is_empty() => CharacterData::Enum(*rng.pick(&foreign)),
                1 => CharacterData::String("NOT-AN-ITEM".into()),
                _ => {
                    // an enum item which is not in the list
                    let c = crate::c18::ENUM_ITEM_LISTING[rng.below(crate::c18::ENUM_ITEM_LISTING.len())].0;
                    if items.iter().any(|(i, _)| *i == c) {
                        CharacterData::UnsignedInteger(3)
                    } else {
                        CharacterData::Enum(c)
                    }
                }
            }
        }
        CharacterDataSpec::Pattern { check_fn, max_length, .. } => {
            let nm = pattern_non_members(*check_fn);
            match rng.below(3) {
                0 if max_length.is_some() => {
                    let m = pattern_members(*check_fn, None);
                    let base = m.first().copied().unwrap_or("a");
                    CharacterData::String(base.repeat(max_length.unwrap() / base.len().max(1) + 2))
                }
                1 => CharacterData::Float(1.5),
                _ => CharacterData::String(rng.pick_opt(&nm).map_or("!".to_string(), |s| (*s).to_string())),
            }
        }
        CharacterDataSpec::String { max_length, .. } => match max_length {
            Some(m) if rng.chance(1, 2) => CharacterData::String("y".repeat(m + 1)),
            _ => CharacterData::Enum(crate::c18::ENUM_ITEM_LISTING[0].0),
        },
        CharacterDataSpec::UnsignedInteger => {
            if rng.chance(1, 2) {
                CharacterData::String("12".into())
            } else {
                CharacterData::Float(1.0)
            }
        }
        CharacterDataSpec::Float => {
            if rng.chance(1, 2) {
                CharacterData::String("1.5".into())
            } else {
                CharacterData::UnsignedInteger(1)
            }
        }
    }
}

