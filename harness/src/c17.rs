//! C17 — the version-compatibility check is exact and changing a file's version is safe (DOC engine)

use crate::docgen::*;
use crate::json::{show_bytes, J};
use crate::refxml::{self, Style};
use crate::report::{cpu_count, run_shards, Report};
use crate::rng::{hash_bytes, Rng};
use crate::specwalk::ALL_VERSIONS;
use crate::walk::{dump_tree, DumpOpts, Tree};
use autosar_data::*;

fn viol(rep: &mut Report, rule: &str, pred: &str, detail: String, bytes: &[u8]) {
    rep.violation(
        rule,
        &format!("C17:{rule}:{pred}"),
        &format!("{detail}\n  document ({} bytes): {}", bytes.len(), show_bytes(bytes, 1200)),
        J::obj().with("engine", J::s("doc")).with("document_hex", J::s(crate::json::hex_encode(&bytes[..bytes.len().min(20000)]))),
    );
}

/// where the value that the strict loader rejects stands: the parser reports attribute values and element content with the same
/// error variants, so the line named by the error is inspected
fn value_location(text: &str, e: &AutosarDataError) -> &'static str {
    let AutosarDataError::ParserError { line, source, .. } = e else { return "" };
    let msg = source.to_string();
    let value = if let Some(rest) = msg.strip_prefix("enum item ") {
        rest.split(' ').next().unwrap_or("").to_string()
    } else if let Some(rest) = msg.strip_prefix("string value ") {
        rest.split(" is ").next().unwrap_or("").to_string()
    } else {
        return "";
    };
    let Some(l) = text.lines().nth(line.saturating_sub(1)) else { return "" };
    let in_attr = l.contains(&format!("=\"{value}\"")) || l.contains(&format!("='{value}'"));
    let in_content = l.contains(&format!(">{value}<")) || l.trim() == value;
    match (in_attr, in_content) {
        (true, false) => ":in-attribute",
        (false, true) => ":in-content",
        (true, true) => ":in-attribute-or-content",
        (false, false) => ":elsewhere",
    }
}

fn relabel(text: &str, from: AutosarVersion, to: AutosarVersion) -> String {
    text.replacen(from.filename(), to.filename(), 1)
}

fn tree_dump(model: &AutosarModel) -> String {
    dump_tree(
        &Tree::of_model(model),
        &DumpOpts {
            skip_root_attrs: true,
            membership: true,
            ..Default::default()
        },
    )
}

/// check one file of a loaded model against all 21 targets
fn check_file(rep: &mut Report, model: &AutosarModel, file: &ArxmlFile, source: AutosarVersion, doc_bytes: &[u8], multi: bool, reload_leniently: bool) {
    let Ok(text) = file.serialize() else {
        rep.count("files_not_serializable(skipped)", 1);
        return;
    };
    for target in ALL_VERSIONS {
        rep.evaluations += 1;
        rep.distinct.insert(hash_bytes(doc_bytes) ^ (target as u64) << 32 ^ u64::from(multi));
        let (errs, mask) = file.check_version_compatibility(target);
        let relabelled = relabel(&text, source, target);
        let probe = AutosarModel::new();
        let accept = probe.load_buffer(relabelled.as_bytes(), "probe.arxml", true);
        let accepted = accept.is_ok();
        let says_ok = errs.is_empty();
        let mask_has = mask & target as u32 != 0;
        rep.count(if accepted { "pairs.accepted_by_strict_load" } else { "pairs.rejected_by_strict_load" }, 1);
        if says_ok != accepted {
            let why = match &accept {
                Err(e) => format!("{}{}", crate::hist::err_variant(e), value_location(&relabelled, e)),
                Ok(_) => format!("{}", match errs.first() {
                    Some(CompatibilityError::IncompatibleElement { .. }) => "IncompatibleElement",
                    Some(CompatibilityError::IncompatibleAttribute { .. }) => "IncompatibleAttribute",
                    Some(CompatibilityError::IncompatibleAttributeValue { .. }) => "IncompatibleAttributeValue",
                    None => "-",
                }),
            };
            viol(
                rep,
                if says_ok { "compat/says-compatible-but-strict-load-rejects" } else { "compat/says-incompatible-but-strict-load-accepts" },
                &why,
                format!("{source:?} -> {target:?}: check_version_compatibility lists {} incompatibilities, strict loading of the relabelled text: {}", errs.len(), accept.as_ref().map(|_| "accepted".to_string()).unwrap_or_else(|e| e.to_string())),
                relabelled.as_bytes(),
            );
        }
        if mask_has != says_ok {
            viol(rep, "compat/mask-disagrees-with-error-list", if mask_has { "mask-has-target" } else { "mask-lacks-target" }, format!("{source:?} -> {target:?}: {} errors but mask {mask:#x}", errs.len()), doc_bytes);
        }
        // set_version on a copy of the model (duplicate keeps file names and versions)
        let before = tree_dump(model);
        // (a leniently loaded file may hold content that duplicate() filters out: there the copy is made by loading the bytes again)
        let copy = if reload_leniently {
            let m = AutosarModel::new();
            if m.load_buffer(doc_bytes, file.filename(), false).is_err() {
                continue;
            }
            m
        } else {
            let Ok(copy) = model.duplicate() else {
                rep.count("duplicate_failed(skipped set_version)", 1);
                continue;
            };
            copy
        };
        let Some(cfile) = copy.files().find(|f| f.filename() == file.filename()) else { continue };
        let cbefore = tree_dump(&copy);
        if cbefore != before {
            // duplicate() is the subject of C13; do not judge set_version on a copy that already differs
            rep.count("duplicate_differs(skipped set_version)", 1);
            continue;
        }
        let r = cfile.set_version(target);
        rep.count(if r.is_ok() { "set_version.ok" } else { "set_version.err" }, 1);
        if r.is_ok() != says_ok {
            viol(rep, "set_version/disagrees-with-check", if r.is_ok() { "ok-with-errors" } else { "err-without-errors" }, format!("{source:?} -> {target:?}: set_version = {:?}, check lists {} errors", r.as_ref().map_err(|e| e.to_string()), errs.len()), doc_bytes);
        }
        let cafter = tree_dump(&copy);
        if cafter != cbefore {
            viol(rep, "set_version/content-changed", if r.is_ok() { "ok" } else { "err" }, crate::histprops::first_diff(&cbefore, &cafter), doc_bytes);
        }
        match &r {
            Ok(()) => {
                if cfile.version() != target {
                    viol(rep, "set_version/version-not-updated", "", format!("version() = {:?} after set_version({target:?})", cfile.version()), doc_bytes);
                }
                if accepted {
                    match cfile.serialize() {
                        Ok(t2) => {
                            let m3 = AutosarModel::new();
                            match m3.load_buffer(t2.as_bytes(), "re.arxml", true) {
                                Ok((f3, _)) if f3.version() == target => {}
                                Ok((f3, _)) => viol(rep, "set_version/reload-has-other-version", "", format!("{:?}", f3.version()), t2.as_bytes()),
                                Err(e) => viol(rep, "set_version/reload-rejected", &crate::hist::err_variant(&e), format!("{source:?} -> {target:?}: the re-serialized file does not load strictly: {e}"), t2.as_bytes()),
                            }
                        }
                        Err(e) => viol(rep, "set_version/serialize-fails", "", e.to_string(), doc_bytes),
                    }
                }
            }
            Err(_) => {
                if cfile.version() != source {
                    viol(rep, "set_version/failed-but-version-changed", "", format!("{:?}", cfile.version()), doc_bytes);
                }
            }
        }
    }
}

/// remove the content of a few elements that carry attributes (references keep DEST, elements keep UUID / T / ...): empty elements
/// with version dependent attributes
fn empty_some(rng: &mut Rng, n: &mut refxml::RefNode, emptied: &mut u64) {
    for item in n.items.iter_mut() {
        if let refxml::RefItem::Elem(c) = item {
            let named = matches!(c.items.first(), Some(refxml::RefItem::Elem(sn)) if sn.name == "SHORT-NAME");
            if !c.attrs.is_empty() && !named && !c.items.is_empty() && rng.chance(1, 3) {
                c.items.clear();
                *emptied += 1;
            } else {
                empty_some(rng, c, emptied);
            }
        }
    }
}

pub fn run(rep: &mut Report, tier: &str) {
    crate::panicmon::install();
    let thorough = tier == "thorough";
    let seed = rep.seed;
    rep.rule = "chunk documents (1-3 package level elements of the whole-specification document of a random source version, values varied) that load strictly under their own version, single file and as one of two files of a model; for each of the 21 targets: check_version_compatibility (error list, mask) and set_version on a duplicate are compared with strict loading of the serialized text relabelled to the target. Distinct by (document, target); non-trivial = every pair".into();
    rep.assumptions.push("precondition: the document loads strictly under its own version (others are skipped and counted)".into());
    let n = if thorough { 80_000 } else { 8_000 };
    let shards = 64;
    let per = n / shards;
    run_shards(rep, shards, cpu_count(), 64, |shard, sub| {
        for j in 0..per {
            let case = (shard * per + j) as u64;
            let mut rng = Rng::derive(seed, "c17", case);
            let source = random_version(&mut rng);
            let (doc, _) = random_chunk_doc(&mut rng, seed, source, 3, true);
            let mut bytes = refxml::render(&mut rng, Style::plain(), &doc);
            let mut model = AutosarModel::new();
            let mut loaded = None;
            if case % 2 == 1 {
                // variant with emptied elements, if it still loads strictly
                let mut doc_e = doc.clone();
                let mut emptied = 0;
                empty_some(&mut rng, &mut doc_e.root, &mut emptied);
                if emptied > 0 {
                    let bytes_e = refxml::render(&mut rng, Style::plain(), &doc_e);
                    if let Ok((file, _)) = model.load_buffer(&bytes_e, "a.arxml", true) {
                        sub.count("documents.with_emptied_elements", 1);
                        sub.count("emptied_elements_with_attributes", emptied);
                        bytes = bytes_e;
                        loaded = Some(file);
                    } else {
                        sub.count("emptied_variants_not_strictly_loadable(fall back to the full document)", 1);
                        model = AutosarModel::new();
                    }
                }
            }
            // every fourth case: the document is labelled with another version and loaded leniently, so that the file may hold
            // content that is not valid for its own version (check and set_version are owed for such files and targets as well)
            let source_of_doc = source;
            let mut source = source;
            if loaded.is_none() && case % 4 == 2 {
                let label = random_version(&mut rng);
                if label != source {
                    let text = String::from_utf8_lossy(&bytes).into_owned();
                    let relabelled = relabel(&text, source, label);
                    if let Ok((file, warnings)) = model.load_buffer(relabelled.as_bytes(), "a.arxml", false) {
                        sub.count("documents.mislabelled_and_loaded_leniently", 1);
                        if !warnings.is_empty() {
                            sub.count("documents.mislabelled_with_warnings", 1);
                        }
                        bytes = relabelled.into_bytes();
                        loaded = Some(file);
                        source = label;
                    } else {
                        model = AutosarModel::new();
                    }
                }
            }
            let file = match loaded {
                Some(f) => f,
                None => {
                    let Ok((file, _)) = model.load_buffer(&bytes, "a.arxml", true) else {
                        sub.count("documents_not_strictly_loadable(skipped)", 1);
                        continue;
                    };
                    file
                }
            };
            sub.count("documents", 1);
            let mislabelled = source != source_of_doc;
            let multi = case % 3 == 0 && !mislabelled;
            if multi {
                // a second file with other content in another package
                let (mut doc2, _) = random_chunk_doc(&mut rng, seed, source, 2, false);
                // in another package - or (every other time) in the same package, so that a shared ELEMENTS container holds elements
                // that belong to the other file only
                let shared_package = case % 6 == 0;
                if !shared_package {
                    if let Some(refxml::RefItem::Elem(pkgs)) = doc2.root.items.first_mut() {
                        if let Some(refxml::RefItem::Elem(pkg)) = pkgs.items.first_mut() {
                            if let Some(refxml::RefItem::Elem(sn)) = pkg.items.first_mut() {
                                sn.items = vec![refxml::RefItem::Text("q".to_string(), 0, 0)];
                            }
                        }
                    }
                }
                let bytes2 = refxml::render(&mut rng, Style::plain(), &doc2);
                if model.load_buffer(&bytes2, "b.arxml", true).is_err() {
                    sub.count("second_file_rejected(skipped)", 1);
                    continue;
                }
                sub.count("documents.two_files", 1);
                if shared_package {
                    sub.count("documents.two_files_sharing_a_package", 1);
                }
            }
            check_file(sub, &model, &file, source, &bytes, multi, mislabelled);
            if case < 2 {
                sub.sample(J::obj().with("source", J::s(source.filename())).with("two_files", J::Bool(multi)).with("text", J::s(show_bytes(&bytes, 600))));
            }
        }
    });
    rep.require("documents", (n / 2) as u64);
    rep.require("documents.with_emptied_elements", (n / 20) as u64);
    rep.require("documents.mislabelled_with_warnings", (n / 100) as u64);
    rep.require("documents.two_files_sharing_a_package", (n / 40) as u64);
    rep.require("pairs.accepted_by_strict_load", 2000);
    rep.require("pairs.rejected_by_strict_load", 2000);
    rep.require("set_version.ok", 1000);
    rep.require("set_version.err", 1000);
}
