//! C02 — the loader is total: arbitrary bytes never panic, crash or hang it (DOC engine, child processes)

use crate::docgen::*;
use crate::json::{hex_decode, hex_encode, show_bytes, J};
use crate::refxml::{self, Style};
use crate::report::{cpu_count, Report};
use crate::rng::{hash_bytes, Rng};
use autosar_data::*;
use std::io::Write as _;
use std::sync::atomic::{AtomicU64, Ordering};
use std::sync::{Arc, Mutex};

const ALPHABET: [u8; 16] = [b'<', b'>', b'/', b'?', b'!', b'-', b'=', b'"', b'\'', b'&', b';', b'#', b' ', b'\n', b'x', b'A'];

pub struct Probe {
    pub load_ok_strict: bool,
    pub load_ok_lenient: bool,
}

fn viol(rep: &mut Report, rule: &str, pred: &str, detail: String, bytes: &[u8]) {
    rep.violation(
        rule,
        &format!("C02:{rule}:{pred}"),
        &format!("{detail}\n  input ({} bytes): {}", bytes.len(), show_bytes(bytes, 500)),
        J::obj().with("engine", J::s("doc")).with("input_hex", J::s(hex_encode(&bytes[..bytes.len().min(20000)]))),
    );
}

fn check_line(rep: &mut Report, e: &AutosarDataError, lines: usize, bytes: &[u8], what: &str) {
    let line = match e {
        AutosarDataError::LexerError { line, .. } | AutosarDataError::ParserError { line, .. } => *line,
        _ => return,
    };
    rep.count("error_lines_checked", 1);
    if line < 1 || line > lines {
        viol(rep, "error-line-out-of-range", &format!("{what}:{}", crate::hist::err_variant(e)), format!("{what} names line {line}, the input has {lines} line(s): {e}"), bytes);
    }
}

/// the C02 oracle for one input (in process; aborts and hangs are observed by the parent process)
pub fn probe(rep: &mut Report, bytes: &[u8], class: &str) -> Probe {
    rep.evaluations += 1;
    let lines = bytes.iter().filter(|c| **c == b'\n').count() + 1;
    let mut result = Probe {
        load_ok_strict: false,
        load_ok_lenient: false,
    };
    for strict in [true, false] {
        let model = AutosarModel::new();
        match crate::panicmon::catch(|| model.load_buffer(bytes, "in.arxml", strict)) {
            Ok(Ok((_, warnings))) => {
                if strict {
                    result.load_ok_strict = true;
                } else {
                    result.load_ok_lenient = true;
                }
                rep.count(&format!("accepted.{class}"), 1);
                for w in &warnings {
                    check_line(rep, w, lines, bytes, "warning");
                }
            }
            Ok(Err(e)) => {
                rep.count(&format!("rejected.{class}"), 1);
                check_line(rep, &e, lines, bytes, "error");
            }
            Err(ab) => viol(rep, "panic", &format!("load_buffer:{}", ab.signature()), format!("load_buffer(strict={strict}) panics: {}", ab.describe()), bytes),
        }
    }
    match crate::panicmon::catch(|| check_buffer(bytes)) {
        Ok(ok) => {
            if (result.load_ok_strict || result.load_ok_lenient) && !ok {
                viol(rep, "check_buffer-rejects-loadable-buffer", "", "load_buffer accepts the buffer but check_buffer returns false".into(), bytes);
            }
        }
        Err(ab) => viol(rep, "panic", &format!("check_buffer:{}", ab.signature()), format!("check_buffer panics: {}", ab.describe()), bytes),
    }
    if result.load_ok_strict || result.load_ok_lenient || hash_bytes(bytes) % 16 == 0 {
        probe_file(rep, bytes, &result);
    }
    result
}

fn find(hay: &[u8], needle: &[u8]) -> Option<usize> {
    hay.windows(needle.len()).position(|w| w == needle)
}

fn outcome_text(r: &Result<(ArxmlFile, Vec<AutosarDataError>), AutosarDataError>) -> String {
    match r {
        Ok((f, w)) => format!("Ok text-hash={:x} warnings={:?}", f.serialize().map(|t| hash_bytes(t.as_bytes())).unwrap_or(0), w.iter().map(|x| x.to_string()).collect::<Vec<_>>()),
        Err(e) => format!("Err {e}"),
    }
}

/// the two file based entry points: `load_file` must behave like `load_buffer` on the file's bytes, `check_file`
/// (which looks at the first 4096 bytes) must accept what loading accepts when the header lies inside that window
fn probe_file(rep: &mut Report, bytes: &[u8], res: &Probe) {
    thread_local! {
        static PATH: std::path::PathBuf = {
            let dir = crate::report::verif_root().join("harness").join("target").join("tmp");
            let _ = std::fs::create_dir_all(&dir);
            dir.join(format!("c02-{}-{:?}.arxml", std::process::id(), std::thread::current().id()).replace(['(', ')'], ""))
        };
    }
    let path = PATH.with(|p| p.clone());
    if std::fs::write(&path, bytes).is_err() {
        rep.count("file_probe.write_failed", 1);
        return;
    }
    rep.count("file_probe.files", 1);
    for strict in [true, false] {
        let from_file = crate::panicmon::catch(|| AutosarModel::new().load_file(&path, strict));
        let from_buf = crate::panicmon::catch(|| AutosarModel::new().load_buffer(bytes, &path, strict));
        match (from_file, from_buf) {
            (Ok(a), Ok(b)) => {
                let (ta, tb) = (outcome_text(&a), outcome_text(&b));
                if ta != tb {
                    viol(rep, "load_file-differs-from-load_buffer", if a.is_ok() == b.is_ok() { "same-verdict" } else { "other-verdict" }, format!("strict={strict}: load_file -> {}\n  load_buffer -> {}", crate::monitors::clip(&ta), crate::monitors::clip(&tb)), bytes);
                }
            }
            (Err(ab), _) => viol(rep, "panic", &format!("load_file:{}", ab.signature()), format!("load_file(strict={strict}) panics: {}", ab.describe()), bytes),
            (_, Err(_)) => {} // reported by probe()
        }
    }
    match crate::panicmon::catch(|| check_file(&path)) {
        Ok(ok) => {
            let loadable = res.load_ok_strict || res.load_ok_lenient;
            // where does the start tag of the root element end? (only decidable here without a parser when nothing
            // that could contain the text "<AUTOSAR" precedes the root element)
            let header_end = match find(bytes, b"<AUTOSAR") {
                Some(p) if find(&bytes[..p], b"<!--").is_none() => bytes[p..].iter().position(|c| *c == b'>').map(|q| p + q + 1),
                _ => None,
            };
            let visible = bytes.len() <= 4096 || header_end.is_some_and(|e| e <= 4096);
            if loadable && visible {
                rep.count("file_probe.check_file_owed", 1);
                if !ok {
                    viol(rep, "check_file-rejects-loadable-file", "", "load_file accepts the file and its header lies within the first 4096 bytes, but check_file returns false".into(), bytes);
                }
            }
            let _ = ok;
        }
        Err(ab) => viol(rep, "panic", &format!("check_file:{}", ab.signature()), format!("check_file panics: {}", ab.describe()), bytes),
    }
}

// ------------------------------------------------------------------------------------------------
// workload of one worker process

struct Progress {
    counter: AtomicU64,
    current: Mutex<Vec<u8>>,
}

fn note(p: &Progress, bytes: &[u8]) {
    p.counter.fetch_add(1, Ordering::Relaxed);
    if let Ok(mut c) = p.current.try_lock() {
        c.clear();
        c.extend_from_slice(&bytes[..bytes.len().min(4096)]);
    }
}

fn nested_doc(version: AutosarVersion, depth: usize, kind: &str) -> Vec<u8> {
    let mut s = crate::specdoc::header(version);
    match kind {
        "packages" => {
            for i in 0..depth {
                s.push_str(&format!("<AR-PACKAGES><AR-PACKAGE><SHORT-NAME>p{i}</SHORT-NAME>"));
            }
            for _ in 0..depth {
                s.push_str("</AR-PACKAGE></AR-PACKAGES>");
            }
        }
        "unknown" => {
            for _ in 0..depth {
                s.push_str("<X>");
            }
            for _ in 0..depth {
                s.push_str("</X>");
            }
        }
        _ => {
            // inline elements of mixed content
            s.push_str("<AR-PACKAGES><AR-PACKAGE><SHORT-NAME>p</SHORT-NAME><DESC><L-2 L=\"EN\">");
            for _ in 0..depth {
                s.push_str("<E>x");
            }
            for _ in 0..depth {
                s.push_str("</E>");
            }
            s.push_str("</L-2></DESC></AR-PACKAGE></AR-PACKAGES>");
        }
    }
    s.push_str("</AUTOSAR>");
    s.into_bytes()
}

fn worker_inputs(rep: &mut Report, shard: usize, shards: usize, tier: &str, seed: u64, prog: &Progress) {
    let thorough = tier == "thorough";
    // (a) exhaustive short strings over the token alphabet; the first symbol selects the shard
    let max_len = if thorough { 6 } else { 5 };
    let prefixes: Vec<Vec<u8>> = vec![
        Vec::new(),
        b"<?xml version=\"1.0\" encoding=\"utf-8\"?>".to_vec(),
        b"<?xml version=\"1.0\" encoding=\"utf-8\"?><AUTOSAR ".to_vec(),
        format!("{}<AR-PACKAGES><AR-PACKAGE UUID=\"", crate::specdoc::header(AutosarVersion::Autosar_00050)).into_bytes(),
        format!("{}<AR-PACKAGES><AR-PACKAGE><SHORT-NAME>", crate::specdoc::header(AutosarVersion::Autosar_00050)).into_bytes(),
        format!("{}</AUTOSAR>", crate::specdoc::header(AutosarVersion::Autosar_00050)).into_bytes(),
    ];
    fn rec(rep: &mut Report, prog: &Progress, buf: &mut Vec<u8>, base: usize, remaining: usize, class: &str) {
        note(prog, buf);
        probe(rep, buf, class);
        rep.distinct.insert(hash_bytes(buf));
        if remaining == 0 {
            return;
        }
        for a in ALPHABET {
            buf.push(a);
            rec(rep, prog, buf, base, remaining - 1, class);
            buf.pop();
        }
        let _ = base;
    }
    for (pi, prefix) in prefixes.iter().enumerate() {
        let len = if pi == 0 { max_len } else { max_len - 2 };
        for (ai, a) in ALPHABET.iter().enumerate() {
            if ai % shards != shard % ALPHABET.len().min(shards) && shards >= ALPHABET.len() {
                continue;
            }
            if shards < ALPHABET.len() && ai % shards != shard {
                continue;
            }
            let mut buf = prefix.clone();
            buf.push(*a);
            rec(rep, prog, &mut buf, prefix.len(), len - 1, if pi == 0 { "exhaustive" } else { "exhaustive-after-prefix" });
        }
        if shard == 0 {
            let mut buf = prefix.clone();
            probe(rep, &buf, "exhaustive-after-prefix");
            buf.clear();
        }
    }
    rep.count("exhaustive_max_length", max_len as u64);
    // (b) structure aware mutations, (c) random bytes
    let n = if thorough { 1_000_000 / shards } else { 30_000 / shards };
    for j in 0..n {
        let case = (shard * n + j) as u64;
        let mut rng = Rng::derive(seed, "c02", case);
        let version = random_version(&mut rng);
        let (doc, _) = random_chunk_doc(&mut rng, seed, version, 2, true);
        let vary = rng.chance(1, 2);
        let gt = rng.chance(1, 4);
        let mut bytes = refxml::render(&mut rng, Style { vary, literal_gt_in_attributes: gt }, &doc);
        let class = match rng.below(13) {
            0 => {
                // blank attribute values
                let text = String::from_utf8_lossy(&bytes).into_owned();
                let at: Vec<usize> = text.match_indices("=\"").map(|(i, _)| i).collect();
                if let Some(p) = rng.pick_opt(&at) {
                    if let Some(end) = text[p + 2..].find('"') {
                        let mut t = text.clone();
                        t.replace_range(p + 2..p + 2 + end, *rng.pick(&[" ", "", "\n", "\t \t"]));
                        bytes = t.into_bytes();
                    }
                }
                "blank-attribute"
            }
            1 => {
                let at = rng.below(bytes.len());
                let pool: [&[u8]; 5] = [&[0xff], &[0xc3], &[0xe2, 0x82], &[0xf0, 0x9f], &[0x80]];
                let bad: &[u8] = pool[rng.below(pool.len())];
                bytes.splice(at..at, bad.iter().copied());
                "invalid-utf8"
            }
            2 => {
                let at = rng.below(bytes.len());
                bytes.truncate(at);
                "truncated"
            }
            3 => {
                // splice two documents
                let (doc2, _) = random_chunk_doc(&mut rng, seed, version, 1, false);
                let b2 = refxml::render(&mut rng, Style::plain(), &doc2);
                let a = rng.below(bytes.len());
                let b = rng.below(b2.len());
                bytes.truncate(a);
                bytes.extend_from_slice(&b2[b..]);
                "spliced"
            }
            4 => {
                for b in bytes.iter_mut() {
                    if (*b == b'"' || *b == b'\'') && rng.chance(1, 6) {
                        *b = if *b == b'"' { b'\'' } else { b'"' };
                    }
                }
                "quotes-flipped"
            }
            5 => {
                let n = rng.range(1, 400);
                bytes = (0..n).map(|_| (rng.next() & 0xff) as u8).collect();
                "random-bytes"
            }
            6 => {
                let n = rng.range(1, 300);
                let mut b = crate::specdoc::header(version).into_bytes();
                b.extend((0..n).map(|_| *rng.pick(&ALPHABET)));
                bytes = b;
                "random-after-header"
            }
            7 => {
                // header mutations
                let text = String::from_utf8_lossy(&bytes).into_owned();
                let t = match rng.below(9) {
                    6..=8 => {
                        // the value of xsi:schemaLocation: namespace and file name in unusual arrangements
                        let ns = "http://autosar.org/schema/r4.0";
                        let xsd = version.filename();
                        let pool = [
                            ns.to_string(),
                            format!("{ns}\u{e4}{xsd}"),
                            String::new(),
                            " ".to_string(),
                            xsd.to_string(),
                            format!("{ns}  {xsd}"),
                            format!("{ns}\t{xsd}"),
                            format!("{ns}\n{xsd}"),
                            format!("{ns} {xsd} extra"),
                            format!("{ns} {}", xsd.to_lowercase()),
                            format!(" {ns} {xsd}"),
                            format!("{ns} "),
                            format!("{ns}/ {xsd}"),
                            format!("{ns} {}", xsd.trim_end_matches(".xsd")),
                        ];
                        let value = &pool[rng.below(pool.len())];
                        match (text.find("xsi:schemaLocation=\""), text.find("xsi:schemaLocation='")) {
                            (Some(p), _) | (None, Some(p)) => {
                                let q = text.as_bytes()[p + 19] as char;
                                let start = p + 20;
                                match text[start..].find(q) {
                                    Some(len) => format!("{}{}{}", &text[..start], value, &text[start + len..]),
                                    None => text.clone(),
                                }
                            }
                            _ => text.clone(),
                        }
                    }
                    0 => text.replacen("version=\"1.0\"", "version=", 1),
                    1 => text.replacen("<?xml", "<?", 1),
                    2 => text.replacen("xmlns=\"http://autosar.org/schema/r4.0\"", "xmlns=\" \"", 1),
                    3 => text.replacen("encoding=\"utf-8\"", "encoding", 1),
                    4 => text.replacen("?>", ">", 1),
                    _ => text.replacen("<AUTOSAR ", "<AUTOSAR\n\n ", 1),
                };
                bytes = t.into_bytes();
                "header-mutation"
            }
            8 => {
                // a processing instruction or comment at a random token boundary
                let tags: Vec<usize> = bytes.iter().enumerate().filter(|(_, c)| **c == b'<').map(|(i, _)| i).collect();
                if let Some(at) = rng.pick_opt(&tags) {
                    let pool: [&[u8]; 8] = [b"<?pi?>", b"<?a b?>", b"<!---->", b"<!-- -- -->", b"<!-->", b"<?xml version=\"1.0\" encoding=\"utf-8\"?>", b"<![CDATA[x]]>", b"<??>"];
                    let ins: &[u8] = pool[rng.below(pool.len())];
                    bytes.splice(*at..*at, ins.iter().copied());
                }
                "pi-or-comment-inserted"
            }
            12 => {
                // line breaks inside the attribute values of the first tags (the line a diagnostic names is computed from the
                // line breaks seen so far), optionally with the root tag on the first line and an attribute that draws a warning
                let mut text = String::from_utf8_lossy(&bytes).into_owned();
                if rng.chance(1, 2) {
                    text = text.replacen("?>\n<AUTOSAR", "?><AUTOSAR", 1);
                }
                if rng.chance(1, 2) {
                    text = text.replacen("<AUTOSAR ", &format!("<AUTOSAR BOGUS=\"1{}\" ", "\n".repeat(rng.below(3))), 1);
                }
                let limit = text.find("<AR-PACKAGES").unwrap_or(600) + if rng.chance(1, 3) { 500 } else { 0 };
                let k = rng.range(1, 3);
                let at_end = rng.chance(2, 3);
                let mut out = String::with_capacity(text.len() + 64);
                let (mut in_tag, mut quote) = (false, None::<char>);
                for (i, c) in text.char_indices() {
                    match (in_tag, quote, c) {
                        // (not inside the xml declaration: its pseudo attributes have fixed values)
                        (false, _, '<') => in_tag = !text[i..].starts_with("<?"),
                        (true, None, '>') => in_tag = false,
                        (true, None, '"' | '\'') => {
                            quote = Some(c);
                            out.push(c);
                            if i < limit && !at_end {
                                out.push_str(&"\n".repeat(k));
                            }
                            continue;
                        }
                        (true, Some(q), x) if x == q => {
                            if i < limit && at_end {
                                out.push_str(&"\n".repeat(k));
                            }
                            quote = None;
                        }
                        _ => {}
                    }
                    out.push(c);
                }
                bytes = out.into_bytes();
                "line-breaks-in-attribute-values"
            }
            _ => {
                bytes = crate::c08::mutate_bytes_pub(&mut rng, &bytes);
                "token-mutation"
            }
        };
        note(prog, &bytes);
        rep.distinct.insert(hash_bytes(&bytes));
        probe(rep, &bytes, class);
        if case < 2 {
            rep.sample(J::obj().with("class", J::s(class)).with("input", J::s(show_bytes(&bytes, 300))));
        }
    }
    // wide inputs
    if shard == 0 {
        let v = AutosarVersion::Autosar_00050;
        let mut s = crate::specdoc::header(v);
        s.push_str("<AR-PACKAGES>");
        for i in 0..(if thorough { 100_000 } else { 10_000 }) {
            s.push_str(&format!("<AR-PACKAGE><SHORT-NAME>p{i}</SHORT-NAME></AR-PACKAGE>"));
        }
        s.push_str("</AR-PACKAGES></AUTOSAR>");
        note(prog, b"<wide document>");
        probe(rep, s.as_bytes(), "wide");
        let mut s = crate::specdoc::header(v);
        s.push_str("<AR-PACKAGES><AR-PACKAGE");
        for i in 0..5000 {
            s.push_str(&format!(" A{i}=\"v\""));
        }
        s.push_str("><SHORT-NAME>p</SHORT-NAME></AR-PACKAGE></AR-PACKAGES></AUTOSAR>");
        probe(rep, s.as_bytes(), "huge-attribute-list");
    }
}

/// entry point of a worker process: prints its sub report as JSON lines on stdout
pub fn worker_main(shard: usize, shards: usize, tier: &str, seed: u64) -> i32 {
    crate::panicmon::install();
    let prog = Arc::new(Progress {
        counter: AtomicU64::new(0),
        current: Mutex::new(Vec::new()),
    });
    // watchdog: the same input in progress for a long time -> report and exit
    {
        let prog = prog.clone();
        std::thread::spawn(move || {
            let mut last = 0;
            let mut since = std::time::Instant::now();
            loop {
                std::thread::sleep(std::time::Duration::from_millis(500));
                let now = prog.counter.load(Ordering::Relaxed);
                if now != last {
                    last = now;
                    since = std::time::Instant::now();
                } else if since.elapsed().as_secs() >= 20 && now > 0 {
                    let cur = prog.current.lock().map(|c| c.clone()).unwrap_or_default();
                    println!("STUCK {}", hex_encode(&cur));
                    let _ = std::io::stdout().flush();
                    std::process::exit(3);
                }
            }
        });
    }
    let mut rep = Report::new("C02", if tier == "thorough" { "thorough" } else { "quick" }, seed);
    rep.max_samples = 2;
    worker_inputs(&mut rep, shard, shards, tier, seed, &prog);
    // serialise the sub report
    let mut out = J::obj();
    out.set("evaluations", J::Int(rep.evaluations as i64));
    out.set("distinct", J::Arr(rep.distinct.iter().take(0).map(|h| J::Int(*h as i64)).collect()));
    out.set("distinct_count", J::Int(rep.distinct.len() as i64));
    let mut counters = J::obj();
    for (k, v) in &rep.counters {
        counters.set(k, J::Int(*v as i64));
    }
    out.set("counters", counters);
    out.set("samples", J::Arr(rep.samples.clone()));
    out.set(
        "violations",
        J::Arr(
            rep.violations
                .iter()
                .map(|v| J::obj().with("rule", J::s(&v.rule)).with("sig", J::s(&v.sig)).with("detail", J::s(&v.detail)).with("count", J::Int(v.count as i64)).with("replay", v.replay.clone()))
                .collect(),
        ),
    );
    println!("REPORT {}", out.to_string_compact());
    0
}

/// run a single input in this process (used to confirm a suspected hang and for nesting probes)
pub fn single_main(hex: &str) -> i32 {
    crate::panicmon::install();
    let bytes = hex_decode(hex);
    let mut rep = Report::new("C02", "quick", 0);
    probe(&mut rep, &bytes, "single");
    println!("DONE violations={}", rep.violations.len());
    0
}

pub fn nest_main(depth: usize, kind: &str) -> i32 {
    crate::panicmon::install();
    let bytes = nested_doc(AutosarVersion::Autosar_00050, depth, kind);
    let mut rep = Report::new("C02", "quick", 0);
    let p = probe(&mut rep, &bytes, "nested");
    println!("DONE violations={} accepted={}", rep.violations.len(), p.load_ok_strict || p.load_ok_lenient);
    for v in &rep.violations {
        println!("VIOL {} :: {}", v.sig, v.detail.lines().next().unwrap_or(""));
    }
    0
}

fn exe() -> std::path::PathBuf {
    std::env::current_exe().expect("current_exe")
}

/// run a child with a timeout; returns (exit code or None when killed by a signal / timed out, stdout, timed_out, signal)
fn run_child(args: &[String], timeout_s: u64) -> (Option<i32>, String, bool, Option<i32>, Option<String>) {
    use std::os::unix::process::ExitStatusExt;
    use std::process::{Command, Stdio};
    let mut child = match Command::new(exe()).args(args).stdout(Stdio::piped()).stderr(Stdio::null()).spawn() {
        Ok(c) => c,
        Err(e) => return (None, format!("spawn failed: {e}"), false, None, None),
    };
    let mut stdout = child.stdout.take().unwrap();
    let reader = std::thread::spawn(move || {
        let mut s = String::new();
        let _ = std::io::Read::read_to_string(&mut stdout, &mut s);
        s
    });
    let start = std::time::Instant::now();
    let mut timed_out = false;
    let mut backtrace = None;
    let status = loop {
        match child.try_wait() {
            Ok(Some(st)) => break Some(st),
            Ok(None) => {
                if start.elapsed().as_secs() >= timeout_s {
                    timed_out = true;
                    // where is it? (innermost frames of the main thread)
                    if let Ok(o) = Command::new("gdb").args(["-batch", "-p", &child.id().to_string(), "-ex", "bt 25"]).stderr(Stdio::null()).output() {
                        backtrace = Some(String::from_utf8_lossy(&o.stdout).into_owned());
                    }
                    let _ = child.kill();
                    break child.wait().ok();
                }
                std::thread::sleep(std::time::Duration::from_millis(50));
            }
            Err(_) => break None,
        }
    };
    let out = reader.join().unwrap_or_default();
    let code = status.and_then(|s| s.code());
    let signal = status.and_then(|s| s.signal());
    (code, out, timed_out, signal, backtrace)
}

fn hang_function(bt: &Option<String>) -> String {
    if let Some(bt) = bt {
        for line in bt.lines() {
            // "#3  0x... in autosar_data::lexer::ArxmlLexer::next (self=...) at ..."
            let Some(p) = line.find(" in ") else { continue };
            let rest = &line[p + 4..];
            let func = rest.split(" (").next().unwrap_or(rest).trim();
            if func.starts_with("autosar_data::") && !func.contains("{closure") {
                let f = func.split('<').next().unwrap_or(func);
                return f.to_string();
            }
        }
    }
    "unknown".to_string()
}

pub fn run(rep: &mut Report, tier: &str) {
    let thorough = tier == "thorough";
    let seed = rep.seed;
    rep.rule = "inputs: all strings up to length L over a 16 symbol XML token alphabet (and up to L-2 appended to five valid prefixes), structure aware mutations of chunk documents of all versions (blank attribute values, invalid UTF-8, truncation, splices, flipped quotes, header mutations, inserted PIs/comments, token deletion/duplication/swap), random bytes, wide documents, nesting depth 10..10^5 (10^6 thorough) in child processes; every input through load_buffer strict + lenient and check_buffer. Oracles: no panic / abort / hang, error and warning lines within the input, check_buffer accepts what load_buffer accepts. Distinct by input bytes; non-trivial = every input".into();
    rep.assumptions.push("a hang is reported only if a fresh process running that single input alone is still busy after 10^4 times the normal processing time; the stack is sampled with gdb for the signature".into());
    let shards = cpu_count().clamp(2, 16);
    let tier_s = tier.to_string();
    let results: Vec<(usize, (Option<i32>, String, bool, Option<i32>, Option<String>))> = std::thread::scope(|s| {
        let handles: Vec<_> = (0..shards)
            .map(|i| {
                let tier_s = tier_s.clone();
                s.spawn(move || (i, run_child(&["c02-worker".into(), i.to_string(), shards.to_string(), tier_s, seed.to_string()], if thorough { 3000 } else { 600 })))
            })
            .collect();
        handles.into_iter().map(|h| h.join().unwrap()).collect()
    });
    for (i, (code, out, timed_out, signal, _bt)) in results {
        let mut got_report = false;
        for line in out.lines() {
            if let Some(hex) = line.strip_prefix("STUCK ") {
                // confirm in a fresh process
                let (c2, _o2, t2, _s2, bt2) = run_child(&["c02-single".into(), hex.to_string()], 30);
                let bytes = hex_decode(hex);
                if t2 {
                    let f = hang_function(&bt2);
                    viol(rep, "hang", &f, format!("the input keeps a fresh process busy for more than 30 s (normal processing time is far below a millisecond); innermost library frame: {f}"), &bytes);
                } else {
                    rep.inconclusive(&format!("worker {i} reported a stuck input that finished alone (exit {c2:?}): machine too slow?"));
                }
            }
            if let Some(json) = line.strip_prefix("REPORT ") {
                got_report = true;
                if let Ok(j) = crate::json::parse(json) {
                    rep.evaluations += j.get("evaluations").and_then(J::as_i64).unwrap_or(0) as u64;
                    let dc = j.get("distinct_count").and_then(J::as_i64).unwrap_or(0) as u64;
                    // distinct inputs of different workers are different by construction (sharded generators); keep the count
                    for k in 0..dc {
                        rep.distinct.insert(crate::rng::mix(k ^ ((i as u64) << 48)));
                    }
                    if let Some(J::Obj(c)) = j.get("counters") {
                        for (k, v) in c {
                            rep.count(k, v.as_i64().unwrap_or(0) as u64);
                        }
                    }
                    if let Some(J::Arr(s)) = j.get("samples") {
                        for x in s {
                            rep.sample(x.clone());
                        }
                    }
                    if let Some(J::Arr(vs)) = j.get("violations") {
                        for v in vs {
                            let g = |k: &str| v.get(k).and_then(J::as_str).unwrap_or("").to_string();
                            rep.violation(&g("rule"), &g("sig"), &g("detail"), v.get("replay").cloned().unwrap_or(J::Null));
                        }
                    }
                }
            }
        }
        if !got_report && !out.contains("STUCK ") {
            if let Some(sig) = signal {
                rep.violation("abort", &format!("C02:abort/signal-{sig}:worker"), &format!("worker process {i} was killed by signal {sig} while loading inputs"), J::obj().with("worker", J::Int(i as i64)));
            } else if timed_out {
                rep.inconclusive(&format!("worker {i} exceeded its time budget"));
            } else {
                rep.inconclusive(&format!("worker {i} ended without a report (exit {code:?})"));
            }
        }
    }
    // (d) nesting depth in child processes
    let depths: Vec<usize> = if thorough { vec![10, 100, 1000, 3000, 10_000, 100_000, 1_000_000] } else { vec![10, 100, 1000, 3000, 10_000, 100_000] };
    // (the sanitizer build of the add-on has other frame sizes and its own stack overflow handler: the probes belong to the native run)
    let kinds: &[&str] = if crate::san::is_san_child() { &[] } else { &["packages", "mixed-inline", "unknown"] };
    for kind in kinds.iter().copied() {
        let mut first_crash = None;
        for d in &depths {
            rep.evaluations += 1;
            rep.count("nesting_probes", 1);
            let (code, out, timed_out, signal, _) = run_child(&["c02-nest".into(), d.to_string(), kind.to_string()], 120);
            if let Some(sig) = signal {
                if !timed_out {
                    first_crash = Some((*d, sig));
                    break;
                }
            }
            if timed_out {
                rep.inconclusive(&format!("nesting probe {kind} depth {d} exceeded its time budget"));
                break;
            }
            for line in out.lines() {
                if let Some(v) = line.strip_prefix("VIOL ") {
                    let (sig, detail) = v.split_once(" :: ").unwrap_or((v, ""));
                    rep.violation("nesting", sig, detail, J::obj().with("kind", J::s(kind)).with("depth", J::Int(*d as i64)));
                }
            }
            let _ = code;
        }
        if let Some((d, sig)) = first_crash {
            rep.violation(
                "abort/stack-overflow",
                &format!("C02:abort/stack-overflow:nesting-{kind}"),
                &format!("a document with {d} nested elements ({kind}) kills the process with signal {sig} (stack overflow in the recursive parser / drop)"),
                J::obj().with("kind", J::s(kind)).with("depth", J::Int(d as i64)),
            );
            rep.extra.insert(format!("nesting_first_crash_depth.{kind}"), J::Int(d as i64));
        }
    }
    rep.require("error_lines_checked", 10_000);
    rep.require("accepted.token-mutation", 10);
    rep.require("rejected.exhaustive", 100_000);
    rep.exhaustive = Some(false);
}
