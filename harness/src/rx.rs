//! independent regex engine for the dialect used by the 28 published AUTOSAR patterns:
//! literals, escapes (\. \- \+ \d ...), classes with ranges, groups, alternation, ? * + {m} {m,n}, '.'
//! Reading fixed in advance: \d = [0-9], '.' = any byte except \n, whole-string match on bytes.

use std::collections::{BTreeSet, HashMap};

#[derive(Clone, Debug)]
enum Node {
    Class(Box<[bool; 256]>),
    Group(Box<Alt>),
}

#[derive(Clone, Debug)]
struct Rep {
    node: Node,
    min: usize,
    max: Option<usize>,
}

type Concat = Vec<Rep>;
type Alt = Vec<Concat>;

struct Parser<'a> {
    s: &'a [u8],
    pos: usize,
}

fn digits() -> Box<[bool; 256]> {
    let mut c = Box::new([false; 256]);
    for b in b'0'..=b'9' {
        c[b as usize] = true;
    }
    c
}

fn single(b: u8) -> Box<[bool; 256]> {
    let mut c = Box::new([false; 256]);
    c[b as usize] = true;
    c
}

impl Parser<'_> {
    fn peek(&self) -> Option<u8> {
        self.s.get(self.pos).copied()
    }

    fn alt(&mut self) -> Result<Alt, String> {
        let mut alts = vec![self.concat()?];
        while self.peek() == Some(b'|') {
            self.pos += 1;
            alts.push(self.concat()?);
        }
        Ok(alts)
    }

    fn concat(&mut self) -> Result<Concat, String> {
        let mut items = Vec::new();
        while let Some(c) = self.peek() {
            if c == b'|' || c == b')' {
                break;
            }
            let node = self.atom()?;
            let (min, max) = self.quantifier()?;
            items.push(Rep { node, min, max });
        }
        Ok(items)
    }

    fn quantifier(&mut self) -> Result<(usize, Option<usize>), String> {
        match self.peek() {
            Some(b'?') => {
                self.pos += 1;
                Ok((0, Some(1)))
            }
            Some(b'*') => {
                self.pos += 1;
                Ok((0, None))
            }
            Some(b'+') => {
                self.pos += 1;
                Ok((1, None))
            }
            Some(b'{') => {
                let close = self.s[self.pos..].iter().position(|c| *c == b'}').ok_or("unclosed {")? + self.pos;
                let body = std::str::from_utf8(&self.s[self.pos + 1..close]).map_err(|e| e.to_string())?;
                self.pos = close + 1;
                let (a, b) = match body.split_once(',') {
                    Some((a, b)) => (a.trim().parse::<usize>().map_err(|e| e.to_string())?, if b.trim().is_empty() { None } else { Some(b.trim().parse::<usize>().map_err(|e| e.to_string())?) }),
                    None => {
                        let n = body.trim().parse::<usize>().map_err(|e| e.to_string())?;
                        (n, Some(n))
                    }
                };
                Ok((a, b))
            }
            _ => Ok((1, Some(1))),
        }
    }

    fn escape(&mut self) -> Result<Box<[bool; 256]>, String> {
        // self.pos is after the backslash
        let c = self.peek().ok_or("dangling backslash")?;
        self.pos += 1;
        Ok(match c {
            b'd' => digits(),
            b'n' => single(b'\n'),
            b't' => single(b'\t'),
            b'r' => single(b'\r'),
            c if c.is_ascii_alphanumeric() => return Err(format!("unsupported escape \\{}", c as char)),
            c => single(c),
        })
    }

    fn atom(&mut self) -> Result<Node, String> {
        let c = self.peek().ok_or("unexpected end")?;
        self.pos += 1;
        match c {
            b'(' => {
                let inner = self.alt()?;
                if self.peek() != Some(b')') {
                    return Err("missing )".into());
                }
                self.pos += 1;
                Ok(Node::Group(Box::new(inner)))
            }
            b'[' => {
                let mut set = Box::new([false; 256]);
                let negate = if self.peek() == Some(b'^') {
                    self.pos += 1;
                    true
                } else {
                    false
                };
                let mut first = true;
                loop {
                    let c = self.peek().ok_or("unclosed [")?;
                    if c == b']' && !first {
                        self.pos += 1;
                        break;
                    }
                    first = false;
                    self.pos += 1;
                    let lo: Box<[bool; 256]> = if c == b'\\' { self.escape()? } else { single(c) };
                    // range?
                    if self.peek() == Some(b'-') && self.s.get(self.pos + 1).is_some_and(|n| *n != b']') && lo.iter().filter(|b| **b).count() == 1 {
                        self.pos += 1;
                        let hc = self.peek().ok_or("unclosed range")?;
                        self.pos += 1;
                        let hi = if hc == b'\\' {
                            let h = self.escape()?;
                            h.iter().position(|b| *b).ok_or("bad range end")? as u8
                        } else {
                            hc
                        };
                        let lo_b = lo.iter().position(|b| *b).unwrap() as u8;
                        if hi < lo_b {
                            return Err("inverted range".into());
                        }
                        for b in lo_b..=hi {
                            set[b as usize] = true;
                        }
                    } else {
                        for (i, b) in lo.iter().enumerate() {
                            if *b {
                                set[i] = true;
                            }
                        }
                    }
                }
                if negate {
                    for b in set.iter_mut() {
                        *b = !*b;
                    }
                }
                Ok(Node::Class(set))
            }
            b'.' => {
                let mut set = Box::new([true; 256]);
                set[b'\n' as usize] = false;
                Ok(Node::Class(set))
            }
            b'\\' => Ok(Node::Class(self.escape()?)),
            b')' | b'|' | b'*' | b'+' | b'?' | b'{' => Err(format!("unexpected '{}' at {}", c as char, self.pos - 1)),
            c => Ok(Node::Class(single(c))),
        }
    }
}

// ---------------------------------------------------------------------------------------------
// NFA

#[derive(Default)]
struct Nfa {
    /// per state: epsilon targets and (class index, target)
    eps: Vec<Vec<usize>>,
    trans: Vec<Vec<(usize, usize)>>,
    classes: Vec<Box<[bool; 256]>>,
}

impl Nfa {
    fn state(&mut self) -> usize {
        self.eps.push(Vec::new());
        self.trans.push(Vec::new());
        self.eps.len() - 1
    }

    fn class_id(&mut self, c: &[bool; 256]) -> usize {
        if let Some(i) = self.classes.iter().position(|x| x[..] == c[..]) {
            return i;
        }
        self.classes.push(Box::new(*c));
        self.classes.len() - 1
    }

    /// build a fragment for the node; returns (start, end)
    fn node(&mut self, n: &Node) -> (usize, usize) {
        match n {
            Node::Class(c) => {
                let s = self.state();
                let e = self.state();
                let id = self.class_id(c);
                self.trans[s].push((id, e));
                (s, e)
            }
            Node::Group(a) => self.alt(a),
        }
    }

    fn alt(&mut self, a: &Alt) -> (usize, usize) {
        let s = self.state();
        let e = self.state();
        for c in a {
            let (cs, ce) = self.concat(c);
            self.eps[s].push(cs);
            self.eps[ce].push(e);
        }
        (s, e)
    }

    fn concat(&mut self, c: &Concat) -> (usize, usize) {
        let s = self.state();
        let mut cur = s;
        for r in c {
            let (rs, re) = self.rep(r);
            self.eps[cur].push(rs);
            cur = re;
        }
        (s, cur)
    }

    fn rep(&mut self, r: &Rep) -> (usize, usize) {
        let s = self.state();
        let mut cur = s;
        for _ in 0..r.min {
            let (ns, ne) = self.node(&r.node);
            self.eps[cur].push(ns);
            cur = ne;
        }
        match r.max {
            None => {
                // star of one more copy
                let (ns, ne) = self.node(&r.node);
                let e = self.state();
                self.eps[cur].push(ns);
                self.eps[cur].push(e);
                self.eps[ne].push(ns);
                self.eps[ne].push(e);
                (s, e)
            }
            Some(max) => {
                let e = self.state();
                self.eps[cur].push(e);
                for _ in r.min..max {
                    let (ns, ne) = self.node(&r.node);
                    self.eps[cur].push(ns);
                    self.eps[ne].push(e);
                    cur = ne;
                }
                (s, e)
            }
        }
    }

    fn closure(&self, set: &mut BTreeSet<usize>) {
        let mut stack: Vec<usize> = set.iter().copied().collect();
        while let Some(s) = stack.pop() {
            for t in &self.eps[s] {
                if set.insert(*t) {
                    stack.push(*t);
                }
            }
        }
    }
}

// ---------------------------------------------------------------------------------------------
// DFA over byte classes

pub struct Dfa {
    pub regex: String,
    /// byte -> symbol (equivalence class of bytes induced by the character sets of the regex)
    pub byte_class: [usize; 256],
    pub n_symbols: usize,
    /// representatives per symbol: (first, last, middle)
    pub reps: Vec<Vec<u8>>,
    /// transitions[state][symbol] = target or usize::MAX (dead)
    pub trans: Vec<Vec<usize>>,
    pub accept: Vec<bool>,
    pub start: usize,
}

pub const DEAD: usize = usize::MAX;

impl Dfa {
    pub fn new(regex: &str) -> Result<Dfa, String> {
        let mut p = Parser { s: regex.as_bytes(), pos: 0 };
        let ast = p.alt()?;
        if p.pos != regex.len() {
            return Err(format!("trailing input at {}", p.pos));
        }
        let mut nfa = Nfa::default();
        let (ns, ne) = nfa.alt(&ast);
        // byte equivalence classes
        let mut sig_map: HashMap<Vec<bool>, usize> = HashMap::new();
        let mut byte_class = [0usize; 256];
        let mut members: Vec<Vec<u8>> = Vec::new();
        for b in 0..=255u8 {
            let sig: Vec<bool> = nfa.classes.iter().map(|c| c[b as usize]).collect();
            let next = sig_map.len();
            let id = *sig_map.entry(sig).or_insert(next);
            if id == members.len() {
                members.push(Vec::new());
            }
            members[id].push(b);
            byte_class[b as usize] = id;
        }
        let n_symbols = members.len();
        let reps: Vec<Vec<u8>> = members
            .iter()
            .map(|m| {
                let mut r = vec![m[0], m[m.len() - 1], m[m.len() / 2]];
                // prefer printable representatives first
                if let Some(p) = m.iter().find(|b| b.is_ascii_graphic()) {
                    r.insert(0, *p);
                }
                r.dedup();
                let mut seen = Vec::new();
                for x in r {
                    if !seen.contains(&x) {
                        seen.push(x);
                    }
                }
                seen
            })
            .collect();
        // symbol -> which nfa classes contain it
        let sym_in_class: Vec<Vec<bool>> = (0..n_symbols).map(|s| nfa.classes.iter().map(|c| c[members[s][0] as usize]).collect()).collect();
        // subset construction
        let mut start_set = BTreeSet::new();
        start_set.insert(ns);
        nfa.closure(&mut start_set);
        let mut ids: HashMap<BTreeSet<usize>, usize> = HashMap::new();
        let mut sets = vec![start_set.clone()];
        ids.insert(start_set, 0);
        let mut trans: Vec<Vec<usize>> = Vec::new();
        let mut i = 0;
        while i < sets.len() {
            let cur = sets[i].clone();
            let mut row = vec![DEAD; n_symbols];
            for (sym, row_entry) in row.iter_mut().enumerate() {
                let mut next = BTreeSet::new();
                for s in &cur {
                    for (cid, t) in &nfa.trans[*s] {
                        if sym_in_class[sym][*cid] {
                            next.insert(*t);
                        }
                    }
                }
                if next.is_empty() {
                    continue;
                }
                nfa.closure(&mut next);
                let id = match ids.get(&next) {
                    Some(id) => *id,
                    None => {
                        let id = sets.len();
                        ids.insert(next.clone(), id);
                        sets.push(next);
                        id
                    }
                };
                *row_entry = id;
            }
            trans.push(row);
            i += 1;
            if sets.len() > 200_000 {
                return Err("DFA too large".into());
            }
        }
        let accept: Vec<bool> = sets.iter().map(|s| s.contains(&ne)).collect();
        let mut dfa = Dfa {
            regex: regex.to_string(),
            byte_class,
            n_symbols,
            reps,
            trans,
            accept,
            start: 0,
        };
        dfa.minimise();
        Ok(dfa)
    }

    fn minimise(&mut self) {
        // Moore partition refinement, with an explicit dead state
        let n = self.trans.len();
        let mut part: Vec<usize> = self.accept.iter().map(|a| usize::from(*a)).collect();
        loop {
            let mut sigs: HashMap<(usize, Vec<usize>), usize> = HashMap::new();
            let mut next = vec![0usize; n];
            for s in 0..n {
                let sig: Vec<usize> = self.trans[s].iter().map(|t| if *t == DEAD { usize::MAX } else { part[*t] }).collect();
                let k = sigs.len();
                next[s] = *sigs.entry((part[s], sig)).or_insert(k);
            }
            let changed = {
                let a: BTreeSet<usize> = part.iter().copied().collect();
                let b: BTreeSet<usize> = next.iter().copied().collect();
                a.len() != b.len()
            };
            part = next;
            if !changed {
                break;
            }
        }
        let n_new = part.iter().copied().max().map_or(0, |m| m + 1);
        let mut trans = vec![vec![DEAD; self.n_symbols]; n_new];
        let mut accept = vec![false; n_new];
        for s in 0..n {
            let p = part[s];
            accept[p] = self.accept[s];
            for (sym, t) in self.trans[s].iter().enumerate() {
                trans[p][sym] = if *t == DEAD { DEAD } else { part[*t] };
            }
        }
        self.start = part[self.start];
        self.trans = trans;
        self.accept = accept;
        // drop states that cannot reach an accepting state (make them DEAD)
        let n = self.trans.len();
        let mut live = self.accept.clone();
        loop {
            let mut changed = false;
            for s in 0..n {
                if !live[s] && self.trans[s].iter().any(|t| *t != DEAD && live[*t]) {
                    live[s] = true;
                    changed = true;
                }
            }
            if !changed {
                break;
            }
        }
        for s in 0..n {
            for t in self.trans[s].iter_mut() {
                if *t != DEAD && !live[*t] {
                    *t = DEAD;
                }
            }
        }
    }

    pub fn step(&self, state: usize, byte: u8) -> usize {
        if state == DEAD {
            DEAD
        } else {
            self.trans[state][self.byte_class[byte as usize]]
        }
    }

    pub fn matches(&self, s: &[u8]) -> bool {
        let mut st = self.start;
        for b in s {
            st = self.step(st, *b);
            if st == DEAD {
                return false;
            }
        }
        self.accept[st]
    }

    pub fn states(&self) -> usize {
        self.trans.len()
    }

    /// shortest access string (as symbols) for every reachable state
    pub fn access_strings(&self) -> Vec<Option<Vec<usize>>> {
        let mut acc: Vec<Option<Vec<usize>>> = vec![None; self.trans.len()];
        acc[self.start] = Some(Vec::new());
        let mut queue = std::collections::VecDeque::from([self.start]);
        while let Some(s) = queue.pop_front() {
            for sym in 0..self.n_symbols {
                let t = self.trans[s][sym];
                if t != DEAD && acc[t].is_none() {
                    let mut a = acc[s].clone().unwrap();
                    a.push(sym);
                    acc[t] = Some(a);
                    queue.push_back(t);
                }
            }
        }
        acc
    }

    /// a set of suffixes (as symbols) that distinguishes every pair of states (incl. the dead state)
    pub fn characterising_set(&self) -> Vec<Vec<usize>> {
        let n = self.trans.len();
        let mut w: Vec<Vec<usize>> = vec![Vec::new()];
        let accepts = |state: usize, word: &[usize]| -> bool {
            let mut st = state;
            for sym in word {
                if st == DEAD {
                    return false;
                }
                st = self.trans[st][*sym];
            }
            st != DEAD && self.accept[st]
        };
        // states index n = dead
        let all: Vec<usize> = (0..n).chain(std::iter::once(DEAD)).collect();
        for (i, a) in all.iter().enumerate() {
            for b in all.iter().skip(i + 1) {
                if w.iter().any(|word| accepts(*a, word) != accepts(*b, word)) {
                    continue;
                }
                // BFS for a distinguishing word
                let mut seen: BTreeSet<(usize, usize)> = BTreeSet::new();
                let mut queue = std::collections::VecDeque::from([(*a, *b, Vec::<usize>::new())]);
                seen.insert((*a, *b));
                let mut found = None;
                while let Some((x, y, word)) = queue.pop_front() {
                    let ax = x != DEAD && self.accept[x];
                    let ay = y != DEAD && self.accept[y];
                    if ax != ay {
                        found = Some(word);
                        break;
                    }
                    if word.len() > 300 {
                        continue;
                    }
                    for sym in 0..self.n_symbols {
                        let nx = if x == DEAD { DEAD } else { self.trans[x][sym] };
                        let ny = if y == DEAD { DEAD } else { self.trans[y][sym] };
                        if seen.insert((nx, ny)) {
                            let mut w2 = word.clone();
                            w2.push(sym);
                            queue.push_back((nx, ny, w2));
                        }
                    }
                }
                if let Some(word) = found {
                    w.push(word);
                }
            }
        }
        w
    }

    pub fn render(&self, word: &[usize], rep_choice: usize) -> Vec<u8> {
        word.iter().map(|s| self.reps[*s][rep_choice % self.reps[*s].len()]).collect()
    }
}
