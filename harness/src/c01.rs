//! C01 — loading is faithful; load -> serialize -> load is the identity (DOC engine)

use crate::docgen::*;
use crate::json::{show_bytes, J};
use crate::refcmp::*;
use crate::refxml::{self, Style};
use crate::report::{cpu_count, run_shards, Report};
use crate::rng::{hash_bytes, Rng};
use crate::specwalk::ALL_VERSIONS;
use crate::walk::{dump_tree, DumpOpts, Tree};
use autosar_data::*;
use autosar_data_specification::ElementType;

pub struct DocOutcome {
    pub accepted: bool,
    pub warnings: usize,
}

fn viol(rep: &mut Report, rule: &str, pred: &str, detail: String, bytes: &[u8], strict: bool) {
    rep.violation(
        rule,
        &format!("C01:{rule}:{pred}"),
        &format!("{detail}\n  document ({} bytes): {}", bytes.len(), show_bytes(bytes, 700)),
        J::obj().with("engine", J::s("doc")).with("strict", J::Bool(strict)).with("document_hex", J::s(crate::json::hex_encode(&bytes[..bytes.len().min(20000)]))),
    );
}

/// the C01 oracle for one document in one mode
pub fn check_doc(rep: &mut Report, bytes: &[u8], strict: bool, class: &str) -> DocOutcome {
    let mode = if strict { "strict" } else { "lenient" };
    rep.evaluations += 1;
    let reference = match refxml::parse(bytes) {
        Ok(r) => r,
        Err(e) => {
            rep.count("documents_the_reference_reader_cannot_read(not judged)", 1);
            let _ = e;
            return DocOutcome { accepted: false, warnings: 0 };
        }
    };
    let model = AutosarModel::new();
    let loaded = crate::panicmon::catch(|| model.load_buffer(bytes, "doc.arxml", strict));
    let (file, warnings) = match loaded {
        Ok(Ok(x)) => x,
        Ok(Err(_)) => {
            rep.count(&format!("rejected.{mode}.{class}"), 1);
            return DocOutcome { accepted: false, warnings: 0 };
        }
        Err(_) => {
            rep.count("loader_panicked(belongs to C02)", 1);
            return DocOutcome { accepted: false, warnings: 0 };
        }
    };
    rep.count(&format!("accepted.{mode}.{class}"), 1);
    rep.distinct.insert(hash_bytes(bytes) ^ u64::from(strict));
    let version = file_version_of(&reference.root).unwrap_or(AutosarVersion::LATEST);
    let wl = warning_lines(&warnings);
    let mut cmp = Cmp {
        version,
        out: Vec::new(),
        elements: 0,
        values: 0,
        attributes: 0,
        comments: 0,
        warnings: &wl,
    };
    cmp.node(&model.root_element(), &reference.root, ElementType::ROOT, "");
    rep.count("compared.elements", cmp.elements);
    rep.count("compared.values", cmp.values);
    rep.count("compared.attributes", cmp.attributes);
    rep.count("compared.comments", cmp.comments);
    let uncovered: Vec<Disc> = cmp.uncovered().into_iter().cloned().collect();
    rep.count("lenient.discrepancies_covered_by_a_warning", (cmp.out.len() - uncovered.len()) as u64);
    for d in uncovered.iter().take(3) {
        viol(rep, &format!("faithful/{}", d.kind), mode, format!("at {} (lines {}-{}): {}; warnings: {:?}", d.path, d.line_start, d.line_end, d.detail, wl.iter().take(5).collect::<Vec<_>>()), bytes, strict);
    }
    if strict && !warnings.is_empty() {
        viol(rep, "strict-load-returns-warnings", mode, format!("{} warnings", warnings.len()), bytes, strict);
    }
    if file.xml_standalone() != reference.standalone {
        viol(rep, "faithful/standalone", mode, format!("xml_standalone() = {:?}, document {:?}", file.xml_standalone(), reference.standalone), bytes, strict);
    }
    if file_version_of(&reference.root).is_some_and(|v| v != file.version()) {
        viol(rep, "faithful/version", mode, format!("version() = {:?}", file.version()), bytes, strict);
    }
    // fixed point
    let opts = DumpOpts::default();
    let d1 = dump_tree(&Tree::of_model(&model), &opts);
    match file.serialize() {
        Ok(s1) => {
            let m2 = AutosarModel::new();
            match m2.load_buffer(s1.as_bytes(), "doc.arxml", strict) {
                Ok((f2, w2)) => {
                    rep.count("fixed_point.cycles", 1);
                    // the schema location attribute is rewritten by serialize, both dumps are taken after it
                    let d1 = dump_tree(&Tree::of_model(&model), &opts);
                    let d2 = dump_tree(&Tree::of_model(&m2), &opts);
                    if d1 != d2 {
                        viol(rep, "fixed-point/model-differs", mode, format!("the model loaded from the serialized text differs: {}", crate::histprops::first_diff(&d1, &d2)), bytes, strict);
                    }
                    if w2.len() > warnings.len() {
                        viol(rep, "fixed-point/new-warnings", mode, format!("reloading the serialized text gives {} warnings, the first load gave {}: {:?}", w2.len(), warnings.len(), w2.iter().map(|w| w.to_string()).take(3).collect::<Vec<_>>()), bytes, strict);
                    }
                    match f2.serialize() {
                        Ok(s2) if s2 == s1 => {}
                        Ok(s2) => viol(rep, "fixed-point/text-differs", mode, format!("second serialization differs: {}", crate::histprops::first_diff(&s1, &s2)), bytes, strict),
                        Err(e) => viol(rep, "fixed-point/second-serialize-fails", mode, e.to_string(), bytes, strict),
                    }
                    if f2.xml_standalone() != file.xml_standalone() || f2.version() != file.version() {
                        viol(rep, "fixed-point/header-differs", mode, format!("standalone {:?}/{:?}, version {:?}/{:?}", file.xml_standalone(), f2.xml_standalone(), file.version(), f2.version()), bytes, strict);
                    }
                }
                Err(e) => {
                    // a lenient first load may have kept content that it warned about; the serialized text may then be rejected strictly only
                    viol(rep, "fixed-point/reload-rejected", &format!("{mode}:{}", crate::hist::err_variant(&e)), format!("the serialized text is rejected in the same mode: {e}"), bytes, strict);
                }
            }
        }
        Err(e) => viol(rep, "fixed-point/serialize-fails", mode, e.to_string(), bytes, strict),
    }
    // the file based pair: write() puts exactly the serialized text on disk and load_file() of that file gives the same model
    if hash_bytes(bytes) % 8 == 0 {
        if let Ok(s1) = file.serialize() {
            thread_local! {
                static PATH: std::path::PathBuf = {
                    let dir = crate::report::verif_root().join("harness").join("target").join("tmp");
                    let _ = std::fs::create_dir_all(&dir);
                    dir.join(format!("c01-{}-{:?}.arxml", std::process::id(), std::thread::current().id()).replace(['(', ')'], ""))
                };
            }
            let path = PATH.with(|p| p.clone());
            if file.set_filename(&path).is_ok() {
                match crate::panicmon::catch(|| model.write()) {
                    Ok(Ok(())) => {
                        rep.count("written_files", 1);
                        match std::fs::read(&path) {
                            Ok(on_disk) if on_disk == s1.as_bytes() => {}
                            Ok(on_disk) => viol(rep, "write/file-differs-from-serialize", mode, format!("the file written by write() has {} bytes, serialize() returns {} bytes", on_disk.len(), s1.len()), bytes, strict),
                            Err(e) => rep.count(&format!("written_file_unreadable:{}", e.kind()), 1),
                        }
                        let m3 = AutosarModel::new();
                        match crate::panicmon::catch(|| m3.load_file(&path, strict)) {
                            Ok(Ok(_)) => {
                                let d1 = dump_tree(&Tree::of_model(&model), &opts);
                                let d3 = dump_tree(&Tree::of_model(&m3), &opts);
                                if d1 != d3 {
                                    viol(rep, "write/load_file-model-differs", mode, format!("the model loaded with load_file from the written file differs: {}", crate::histprops::first_diff(&d1, &d3)), bytes, strict);
                                }
                            }
                            Ok(Err(e)) => viol(rep, "write/load_file-rejected", &format!("{mode}:{}", crate::hist::err_variant(&e)), format!("the written file is rejected by load_file in the same mode: {e}"), bytes, strict),
                            Err(_) => rep.count("loader_panicked(belongs to C02)", 1),
                        }
                    }
                    Ok(Err(e)) => rep.count(&format!("write_failed:{}", crate::hist::err_variant(&e)), 1),
                    Err(_) => rep.count("write_panicked(belongs to C12)", 1),
                }
            }
        }
    }
    let _ = d1;
    DocOutcome {
        accepted: true,
        warnings: warnings.len(),
    }
}

/// simple recoverable defects for the lenient set (the full catalogue lives in C08)
fn inject_defect(rng: &mut Rng, doc: &mut refxml::RefDoc) -> &'static str {
    use crate::refxml::RefItem;
    // collect mutable paths is cumbersome: walk to a random depth
    fn pick<'a>(rng: &mut Rng, n: &'a mut refxml::RefNode, depth: usize) -> &'a mut refxml::RefNode {
        let kids: Vec<usize> = n.items.iter().enumerate().filter(|(_, i)| matches!(i, RefItem::Elem(_))).map(|(i, _)| i).collect();
        if kids.is_empty() || (depth > 3 && rng.chance(1, 3)) {
            return n;
        }
        let k = *rng.pick(&kids);
        match &mut n.items[k] {
            RefItem::Elem(c) => pick(rng, c, depth + 1),
            RefItem::Text(..) => unreachable!(),
        }
    }
    let target = pick(rng, &mut doc.root, 0);
    match rng.below(3) {
        0 => {
            target.attrs.push(("BOGUS-ATTRIBUTE".to_string(), "1".to_string()));
            "unknown-attribute"
        }
        1 => {
            target.items.push(RefItem::Elem(text_node("SHORT-NAME", "dup")));
            "extra-short-name"
        }
        _ => {
            if target.items.iter().all(|i| matches!(i, RefItem::Elem(_))) && !target.items.is_empty() {
                target.items.push(RefItem::Text("stray text".to_string(), 0, 0));
                "stray-text"
            } else {
                target.attrs.push(("BOGUS-ATTRIBUTE".to_string(), "1".to_string()));
                "unknown-attribute"
            }
        }
    }
}

pub fn run(rep: &mut Report, tier: &str) {
    crate::panicmon::install();
    let thorough = tier == "thorough";
    let seed = rep.seed;
    rep.rule = "documents: (a) the whole-specification document of each of the 21 versions, as serialized, re-rendered plainly and re-rendered with syntactic variation by the independent writer; (b) chunk documents (1-4 package level elements cut from the whole-specification documents) with values replaced by other texts of the same value space, comments added, quote/entity/char-ref/empty-tag/whitespace variation; (d) chunk documents with 1-2 injected recoverable defects, lenient mode; each document in strict and lenient mode. Oracle: typed comparison with the reference reader + load/serialize fixed point. Distinct by (document bytes, mode); non-trivial = accepted documents".into();
    rep.assumptions.push("specification tables are the trusted base for typing the reference tree; whitespace-only text and leading/trailing ASCII whitespace of non whitespace-preserving character data are insignificant; comment-text-element sequences inside mixed content are not generated".into());
    // (a) whole specification documents
    let versions: Vec<AutosarVersion> = ALL_VERSIONS.to_vec();
    run_shards(rep, versions.len(), cpu_count(), 256, |i, sub| {
        let v = versions[i];
        let sd = match try_spec_doc(v, seed) {
            Ok(sd) => sd,
            Err(e) => {
                sub.evaluations += 1;
                sub.violation(
                    "serialize/not-well-formed",
                    "C01:serialize/not-well-formed:api-built-model",
                    &format!("the text serialized for an API-built model of {} is not well-formed XML for the independent reader: {e}", v.filename()),
                    J::obj().with("engine", J::s("doc")).with("version", J::s(v.filename())),
                );
                return;
            }
        };
        let mut rng = Rng::derive(seed, "c01a", i as u64);
        sub.count("whole_spec.chunks", sd.chunks.len() as u64);
        for strict in [true, false] {
            check_doc(sub, sd.text.as_bytes(), strict, "whole-spec-as-serialized");
            let plain = refxml::render(&mut rng, Style::plain(), &sd.doc);
            check_doc(sub, &plain, strict, "whole-spec-rendered");
            let varied = refxml::render(&mut rng, Style::varied(), &sd.doc);
            check_doc(sub, &varied, strict, "whole-spec-varied");
        }
        sub.name_in("versions", v.filename());
    });
    // (b) + (d) chunk documents
    let n_docs = if thorough { 120_000 } else { 15_000 };
    let shards = 64;
    let per = n_docs / shards;
    run_shards(rep, shards, cpu_count(), 64, |shard, sub| {
        for j in 0..per {
            let case = (shard * per + j) as u64;
            let mut rng = Rng::derive(seed, "c01b", case);
            let version = random_version(&mut rng);
            if try_spec_doc(version, seed).is_err() {
                continue;
            }
            let (doc, changed) = random_chunk_doc(&mut rng, seed, version, 4, true);
            sub.count("chunk_docs.values_or_comments_varied", changed);
            let style = Style { vary: true, literal_gt_in_attributes: case % 30 == 7 };
            let bytes = refxml::render(&mut rng, style, &doc);
            let o = check_doc(sub, &bytes, true, "chunk");
            check_doc(sub, &bytes, false, "chunk");
            if case < 2 {
                sub.sample(J::obj().with("class", J::s("chunk document")).with("version", J::s(version.filename())).with("strict_accepted", J::Bool(o.accepted)).with("text", J::s(show_bytes(&bytes, 900))));
            }
            if j % 3 == 0 {
                let mut bad = doc.clone();
                let k = rng.range(1, 2);
                let mut kinds = Vec::new();
                for _ in 0..k {
                    kinds.push(inject_defect(&mut rng, &mut bad));
                }
                let vary = rng.chance(1, 2);
                let bytes = refxml::render(&mut rng, Style { vary, literal_gt_in_attributes: false }, &bad);
                let o = check_doc(sub, &bytes, false, "defective");
                if o.accepted && o.warnings > 0 {
                    sub.count("lenient.accepted_with_warnings", 1);
                }
            }
        }
    });
    rep.count("comments_before_inline_elements_of_mixed_content", crate::docgen::MIXED_COMMENTS.load(std::sync::atomic::Ordering::Relaxed));
    rep.require("comments_before_inline_elements_of_mixed_content", 20);
    rep.require("accepted.strict.chunk", (n_docs / 3) as u64);
    rep.require("accepted.lenient.chunk", (n_docs / 3) as u64);
    rep.require("accepted.strict.whole-spec-varied", 15);
    rep.require("compared.values", 50_000);
    rep.require("compared.comments", 100);
    rep.require("lenient.accepted_with_warnings", 50);
    rep.require("fixed_point.cycles", 1000);
}
