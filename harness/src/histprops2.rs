//! C10 / C13 / C14: pre-state capture and post-call monitors

use crate::hist::*;
use crate::histprops::{first_diff, Pre, PreExtra, StepCtx};
use crate::monitors::*;
use crate::walk::*;
use autosar_data::*;
use std::collections::HashSet;

fn mk(rule: &str, pred: &str, detail: String) -> Viol {
    Viol {
        rule: rule.into(),
        pred: pred.into(),
        detail,
    }
}

/// order-insensitive canonical form: at every element whose children may be reordered the child forms are sorted,
/// elsewhere (ordered elements, mixed and character content) the order is kept
pub fn canon(t: &Tree, i: usize) -> String {
    use std::fmt::Write as _;
    let n = &t.nodes[i];
    let e = &n.elem;
    let mut head = String::new();
    let _ = write!(head, "{}", e.element_name().to_str());
    for a in e.attributes() {
        let _ = write!(head, " @{}={}", a.attrname.to_str(), cdata_str(&a.content));
    }
    if let Some(c) = e.comment() {
        let _ = write!(head, " #{c:?}");
    }
    let et = e.element_type();
    let fixed = et.is_ordered() || matches!(et.content_mode(), autosar_data_specification::ContentMode::Mixed | autosar_data_specification::ContentMode::Characters);
    let mut kids: Vec<String> = n
        .items
        .iter()
        .map(|item| match item {
            Ok(ci) => canon(t, *ci),
            Err(cd) => cdata_str(cd),
        })
        .collect();
    if !fixed {
        kids.sort();
    }
    format!("{head}{{{}}}", kids.join(","))
}

/// models that an operation may legitimately change
fn touched_models(w: &World, op: &Op) -> Vec<usize> {
    let mut out = Vec::new();
    let add_e = |i: usize, out: &mut Vec<usize>| {
        if let Some(m) = w.home(&w.elems[i]) {
            out.push(m);
        }
    };
    match op {
        Op::Copy { p, .. } | Op::CopyAt { p, .. } => add_e(*p, &mut out),
        Op::Move { p, src } | Op::MoveAt { p, src, .. } => {
            add_e(*p, &mut out);
            add_e(*src, &mut out);
        }
        Op::Cmp { .. } => {}
        Op::SortModel { m } | Op::CreateFile { m, .. } | Op::LoadBuffer { m, .. } | Op::LoadSelf { m, .. } | Op::RemoveFile { m, .. } | Op::ModelReaders { m } | Op::Duplicate { m } => out.push(*m),
        Op::SetVersion { f, .. } | Op::SetFilename { f, .. } | Op::FileReaders { f } => {
            // serialize() / set_version touch the model that owns the file
            if let Ok(owner) = w.files[*f].model() {
                if let Some(m) = w.models.iter().position(|m| *m == owner) {
                    out.push(m);
                }
            }
        }
        other => {
            if let Some(r) = other.receiver() {
                add_e(r, &mut out);
            }
        }
    }
    // add_to_file / remove_from_file / remove_file with a file of another model: that model is named in the call as well
    if let Op::AddToFile { f, .. } | Op::RemoveFromFile { f, .. } | Op::RemoveFile { f, .. } = op {
        if let Some(m) = w.models.iter().position(|m| m.files().any(|x| x == w.files[*f])) {
            out.push(m);
        }
    }
    out
}

fn attr_permitted(e: &Element, a: &Attribute, target: AutosarVersion) -> bool {
    match e.element_type().find_attribute_spec(a.attrname) {
        Some(spec) => {
            if spec.version & target as u32 == 0 {
                return false;
            }
            if let (autosar_data_specification::CharacterDataSpec::Enum { items }, CharacterData::Enum(v)) = (spec.spec, &a.content) {
                return items.iter().any(|(i, m)| i == v && m & target as u32 != 0);
            }
            true
        }
        None => false,
    }
}

fn keepable(t: &Tree, i: usize, target: AutosarVersion) -> bool {
    let e = &t.nodes[i].elem;
    // a required attribute that is present but not permitted makes the element impossible to keep
    for a in e.attributes() {
        if !attr_permitted(e, &a, target) && e.element_type().find_attribute_spec(a.attrname).is_none_or(|s| s.required) {
            return false;
        }
    }
    // an enumeration value that does not exist in the target version cannot be kept either: the element is omitted
    if let (Some(autosar_data_specification::CharacterDataSpec::Enum { items }), Some(CharacterData::Enum(v))) = (e.element_type().chardata_spec(), e.character_data()) {
        if !items.iter().any(|(i, m)| *i == v && m & target as u32 != 0) {
            return false;
        }
    }
    true
}

fn expected_rec(t: &Tree, i: usize, depth: usize, target: AutosarVersion, out: &mut String) {
    use std::fmt::Write as _;
    let n = &t.nodes[i];
    let e = &n.elem;
    for _ in 0..depth {
        out.push(' ');
    }
    out.push_str(e.element_name().to_str());
    for a in e.attributes() {
        if attr_permitted(e, &a, target) {
            let _ = write!(out, " @{}={}", a.attrname.to_str(), cdata_str(&a.content));
        }
    }
    if let Some(c) = e.comment() {
        let _ = write!(out, " #{c:?}");
    }
    out.push('\n');
    for item in &n.items {
        match item {
            Ok(ci) => {
                let c = &t.nodes[*ci].elem;
                if e.element_type().find_sub_element(c.element_name(), target as u32).is_some() && keepable(t, *ci, target) {
                    expected_rec(t, *ci, depth + 1, target, out);
                }
            }
            Err(cd) => {
                for _ in 0..=depth {
                    out.push(' ');
                }
                out.push_str(&cdata_str(cd));
                out.push('\n');
            }
        }
    }
}

/// expected dump of a deep copy into another version: exactly the parts permitted in `target` (independent walk over the tables).
/// None if the copied element itself cannot be kept valid (a required attribute is not permitted).
pub fn expected_copy_dump(t: &Tree, target: AutosarVersion) -> Option<String> {
    if !keepable(t, 0, target) {
        return None;
    }
    let mut out = String::new();
    expected_rec(t, 0, 0, target, &mut out);
    Some(out)
}

/// compare the dump of a copy with the dump of its source; the copy's own item name may carry a numeric suffix
fn copy_matches(src_dump: &str, copy_dump: &str) -> Result<(), String> {
    let a: Vec<&str> = src_dump.lines().collect();
    let b: Vec<&str> = copy_dump.lines().collect();
    if a.len() != b.len() {
        return Err(format!("the copy has {} lines, expected {}: {}", b.len(), a.len(), first_diff(src_dump, copy_dump)));
    }
    for (i, (la, lb)) in a.iter().zip(b.iter()).enumerate() {
        if la == lb {
            continue;
        }
        // line 2 holds the text of the SHORT-NAME of the copied element itself
        if i == 2 && a.get(1).is_some_and(|l| l.trim_start().starts_with("SHORT-NAME")) {
            let sa = la.trim().trim_start_matches("S:\"").trim_end_matches('"');
            let sb = lb.trim().trim_start_matches("S:\"").trim_end_matches('"');
            if let Some(suffix) = sb.strip_prefix(sa) {
                if suffix.len() > 1 && suffix.starts_with('_') && suffix[1..].chars().all(|c| c.is_ascii_digit()) {
                    continue;
                }
            }
        }
        return Err(format!("line {}: expected {la:?} / copy {lb:?}", i + 1));
    }
    Ok(())
}

pub fn pre_extra(prop: &str, w: &World, op: &Op, pre: &mut Pre) {
    match prop {
        "C13" => {
            pre.touched = touched_models(w, op);
            match op {
                Op::Copy { src, p } | Op::CopyAt { src, p, .. } => {
                    let se = &w.elems[*src];
                    let st = Tree::of_element(se);
                    let src_version = version_of(se);
                    let dest_version = version_of(&w.elems[*p]);
                    // also for the same version: content that is not permitted in the version of its own file (possible after a file
                    // with a lower version was added) is outside "identical content"; the copy must be exactly the permitted part
                    let expected = expected_copy_dump(&st, dest_version);
                    pre.extra = Some(PreExtra::Copy {
                        src: se.clone(),
                        src_dump: dump_tree(&st, &DumpOpts::default()),
                        src_version,
                        dest_version,
                        expected,
                    });
                }
                Op::Duplicate { m } => {
                    let mut texts: Vec<(String, String)> = w.models[*m].files().filter_map(|f| f.serialize().ok().map(|t| (file_label(&f), t))).collect();
                    texts.sort();
                    pre.extra = Some(PreExtra::Duplicate { texts });
                }
                _ => {}
            }
            // serialize() rewrites the schema location of the root element: take the snapshot afterwards
            pre.full = Some(w.models.iter().map(dump_full).collect());
        }
        "C14" => {
            let target = match op {
                Op::Sort { e } => Some(w.elems[*e].clone()),
                Op::SortModel { m } => Some(w.models[*m].root_element()),
                _ => None,
            };
            if let Some(root) = target {
                let t = Tree::of_element(&root);
                let conformed = match root.min_version() {
                    Ok(version) => t.nodes.iter().all(|n| !matches!(crate::c07::children_conform(&n.elem, version), Err((class, _)) if class != "not-in-version")),
                    Err(_) => false,
                };
                pre.extra = Some(PreExtra::Sort { canon: canon(&t, 0), root, conformed });
            }
        }
        "C10" => {
            if let Op::RemoveFile { m, f } = op {
                let model = &w.models[*m];
                let file = &w.files[*f];
                if model.files().any(|x| &x == file) && model.files().count() > 1 {
                    let t = &w.trees[*m];
                    let eff = effective_files(t, model);
                    let label = file_label(file);
                    let only_f: Vec<Element> = t
                        .nodes
                        .iter()
                        .enumerate()
                        .filter(|(i, n)| n.parent.is_some() && eff[*i].len() == 1 && eff[*i].contains(&label))
                        .map(|(_, n)| n.elem.clone())
                        .collect();
                    let others_text = model.files().filter(|x| x != file).filter_map(|x| x.serialize().ok().map(|t| (x.clone(), t))).collect();
                    pre.live_before = t.nodes.iter().map(|n| n.elem.clone()).collect();
                    pre.extra = Some(PreExtra::RemoveFile {
                        model: *m,
                        file: file.clone(),
                        only_f,
                        others_text,
                        removed_label: label,
                    });
                }
            }
        }
        _ => {}
    }
}

pub fn post_extra(ctx: &mut StepCtx, w: &World, op: &Op, pre: &Pre, out: &Outcome) -> Vec<Viol> {
    let mut viols = Vec::new();
    match ctx.prop {
        "C10" => {
            let file_op = matches!(
                op.kind(),
                Kind::AddToFile | Kind::RemoveFromFile | Kind::RemoveFile | Kind::CreateFile | Kind::LoadBuffer | Kind::LoadSelf | Kind::SetFilename | Kind::Duplicate | Kind::Move | Kind::MoveAt | Kind::Copy | Kind::CopyAt
            );
            for (m, model) in w.models.iter().enumerate() {
                let check_text = file_op || w.log.len() % 4 == 0;
                viols.extend(m_files(model, &w.trees[m], check_text, &mut ctx.seen));
            }
            if let (Some(PreExtra::RemoveFile { model, file, only_f, others_text, removed_label }), true) = (&pre.extra, out.is_ok()) {
                let mdl = &w.models[*model];
                let t = &w.trees[*model];
                ctx.seen.references += 1;
                if mdl.files().any(|x| x == *file) {
                    viols.push(mk("remove_file/file-still-listed", "", format!("{removed_label} is still listed by files()")));
                }
                let gone: HashSet<&Element> = only_f.iter().collect();
                for e in only_f {
                    if t.contains(e) {
                        viols.push(mk("remove_file/element-of-removed-file-stays", if e.element_name() == ElementName::ShortName { "SHORT-NAME" } else { "other" }, format!("{} was attributed to {removed_label} alone but is still part of the model", e.element_name())));
                        break;
                    }
                }
                for e in &pre.live_before {
                    if !gone.contains(e) && !t.contains(e) {
                        viols.push(mk("remove_file/element-of-other-file-removed", "", format!("{} was not attributed to {removed_label} alone but has been removed", e.element_name())));
                        break;
                    }
                }
                for (f, text) in others_text {
                    match f.serialize() {
                        Ok(now) if now == *text => {}
                        Ok(now) => {
                            // the text may differ in form only (<AUTOSAR></AUTOSAR> vs <AUTOSAR/>): compare the content
                            let content = |t: &str| {
                                let fresh = AutosarModel::new();
                                fresh.load_buffer(t.as_bytes(), "cmp.arxml", false).ok().map(|_| dump_tree(&Tree::of_model(&fresh), &DumpOpts { skip_root_attrs: true, ..Default::default() }))
                            };
                            let (a, b) = (content(text), content(&now));
                            if a.is_none() || a != b {
                                viols.push(mk("remove_file/other-file-content-changed", "", format!("the content of {} changed: {}", file_label(f), first_diff(text, &now))));
                            }
                        }
                        Err(e) => viols.push(mk("remove_file/other-file-not-serializable", "", format!("{}: {e}", file_label(f)))),
                    }
                }
                let mut seen = Seen::default();
                viols.extend(m_index(mdl, t, &[], &mut seen));
                viols.extend(m_refs(mdl, t, &mut seen));
            }
        }
        "C13" => {
            // independence: models that the operation does not touch keep their state
            if let Some(before) = &pre.full {
                for (m, model) in w.models.iter().enumerate().take(before.len()) {
                    if !pre.touched.contains(&m) {
                        let after = dump_full(model);
                        if after != before[m] {
                            viols.push(mk("independence/untouched-model-changed", &format!("{:?}", op.kind()), format!("model m{m} is not involved in the call but changed: {}", first_diff(&before[m], &after))));
                        }
                    }
                }
            }
            match (&pre.extra, out.is_ok(), &w.last_created) {
                (Some(PreExtra::Copy { src, src_dump, src_version, dest_version, expected }), true, Some(copy)) => {
                    ctx.seen.references += 1;
                    let ct = Tree::of_element(copy);
                    let copy_dump = dump_tree(&ct, &DumpOpts::default());
                    let _ = src_dump;
                    {
                        match expected {
                            Some(exp) => {
                                if let Err(d) = copy_matches(exp, &copy_dump) {
                                    viols.push(mk("copy/content-differs", if dest_version == src_version { "same-version" } else { "other-version" }, format!("copy from {src_version:?} into {dest_version:?} is not exactly the permitted part of its source: {d}")));
                                }
                            }
                            None => viols.push(mk("copy/unkeepable-element-copied", "other-version", format!("the copied element has a required attribute that is not permitted in {dest_version:?}, yet the copy succeeded"))),
                        }
                    }
                    // source unchanged
                    let st = Tree::of_element(src);
                    if dump_tree(&st, &DumpOpts::default()) != *src_dump {
                        viols.push(mk("copy/source-changed", "", "the source subtree changed".into()));
                    }
                    // independence of objects
                    if ct.nodes.iter().any(|n| st.contains(&n.elem)) {
                        viols.push(mk("copy/shares-element-objects-with-source", "", "an element object of the copy is also an element object of the source".into()));
                    }
                    // everything copied is findable in the destination
                    for (m, model) in w.models.iter().enumerate() {
                        if w.trees[m].contains(copy) {
                            let mut seen = Seen::default();
                            viols.extend(m_index(model, &w.trees[m], &[], &mut seen));
                            viols.extend(m_refs(model, &w.trees[m], &mut seen));
                        }
                    }
                }
                (Some(PreExtra::Copy { expected, src_version, dest_version, .. }), false, _) => {
                    // a copy into another version may only fail for version reasons if the element itself cannot be kept
                    if out.err_variant() == Some("VersionIncompatibleData") && expected.is_some() {
                        viols.push(mk("copy/spurious-version-error", "", format!("copy from {src_version:?} into {dest_version:?} failed with VersionIncompatibleData although the copied element is permitted there")));
                    }
                }
                (Some(PreExtra::Duplicate { texts }), true, _) => {
                    if let Some(copy) = &w.last_model {
                        ctx.seen.references += 1;
                        let mut now: Vec<(String, String)> = copy.files().filter_map(|f| f.serialize().ok().map(|t| (file_label(&f), t))).collect();
                        now.sort();
                        if now.len() != texts.len() {
                            viols.push(mk("duplicate/file-count-differs", "", format!("original has {} serializable files, duplicate {}", texts.len(), now.len())));
                        } else {
                            for ((la, ta), (lb, tb)) in texts.iter().zip(now.iter()) {
                                if la != lb || ta != tb {
                                    // cause: the original holds content that is not valid in the version of its own file (built while
                                    // the model also had a file of another version); duplicate() copies through the version filter
                                    let invalid_original = match op {
                                        Op::Duplicate { m } => w.models.get(*m).is_some_and(|orig| orig.files().any(|f| !f.check_version_compatibility(f.version()).0.is_empty())),
                                        _ => false,
                                    };
                                    viols.push(mk("duplicate/file-text-differs", if invalid_original { "original-has-content-not-valid-in-the-version-of-its-file" } else { "" }, format!("file {la}/{lb}: {}", first_diff(ta, tb))));
                                    break;
                                }
                            }
                        }
                    }
                }
                _ => {}
            }
        }
        "C14" => {
            if let Some(PreExtra::Sort { root, canon: before, conformed }) = &pre.extra {
                ctx.seen.references += 1;
                let t = Tree::of_element(root);
                let after = canon(&t, 0);
                if after != *before {
                    viols.push(mk("sort/content-not-preserved", "", format!("the multiset of children (or the order of non-reorderable children) changed somewhere below {}", root.element_name())));
                }
                // idempotence: sorting again does not change the text
                let text1 = root.serialize();
                root.sort();
                let text2 = root.serialize();
                if text1 != text2 {
                    viols.push(mk("sort/not-idempotent", "", format!("sorting twice differs from sorting once: {}", first_diff(&text1, &text2))));
                }
                // the sorted elements are still in specification order for the version of their file
                if let (Ok(version), true) = (root.min_version(), *conformed) {
                    for n in &t.nodes {
                        if let Err((class, why)) = crate::c07::children_conform(&n.elem, version) {
                            if class != "not-in-version" {
                                viols.push(mk("sort/result-does-not-conform-to-specification", class, format!("after sort: in {}: {why}", n.elem.xml_path())));
                                break;
                            }
                        }
                    }
                }
                for model in &w.models {
                    let tm = Tree::of_model(model);
                    if tm.contains(root) {
                        let mut seen = Seen::default();
                        viols.extend(m_tree(model, &tm, false));
                        viols.extend(m_index(model, &tm, &[], &mut seen));
                        viols.extend(m_refs(model, &tm, &mut seen));
                    }
                }
            }
        }
        _ => {}
    }
    viols
}
