//! C11, directed part: failing create calls over the whole specification. For element types taken round-robin from all types
//! and every version in which the type can be reached, the element is built through the API and then asked to create every sub
//! element name that the type lists in *any* version (so that names which are not valid, not named, or placed elsewhere in this
//! version are tried), named and unnamed, with and without position. A call that returns Err must leave the snapshot unchanged.

use crate::genmodel::*;
use crate::json::J;
use crate::report::{cpu_count, run_shards, Report};
use crate::rng::{hash_str, Rng};
use crate::specwalk::{SpecWalk, ALL_VERSIONS};
use crate::walk::dump_full;
use autosar_data::*;

fn classify(before: &str, after: &str) -> &'static str {
    let strip = |d: &str| -> String { d.split("--files").next().unwrap_or("").lines().map(|l| l.split(" files=[").next().unwrap_or(l)).collect::<Vec<_>>().join("\n") };
    if strip(before) != strip(after) {
        "tree-content"
    } else if before.split("--files").next() != after.split("--files").next() {
        "file-sets-of-elements"
    } else {
        "tables"
    }
}

pub fn run(rep: &mut Report, tier: &str) {
    crate::histprops::setup_monitors();
    let thorough = tier == "thorough";
    let seed = rep.seed;
    let walk = SpecWalk::new();
    let n_types = walk.types.len();
    let cases = if thorough { n_types * 4 } else { n_types };
    let shards = 64;
    let per = cases.div_ceil(shards);
    let walk_ref = &walk;
    run_shards(rep, shards, cpu_count(), 64, |shard, sub| {
        for j in 0..per {
            let case = (shard * per + j) as u64;
            if case as usize >= cases {
                break;
            }
            let mut rng = Rng::derive(seed, "c11sweep", case);
            let ti = if thorough { case as usize % n_types } else { (case as usize * 6151 + seed as usize * 977) % n_types };
            let t = walk_ref.types[ti].etype;
            let mask = path_versions(walk_ref, t);
            let versions: Vec<AutosarVersion> = ALL_VERSIONS.iter().copied().filter(|v| mask & *v as u32 != 0).collect();
            // prefer the oldest and the newest version of the type: that is where version dependent rules differ
            let Some(version) = (match rng.below(3) {
                0 => versions.first().copied(),
                1 => versions.last().copied(),
                _ => rng.pick_opt(&versions).copied(),
            }) else {
                continue;
            };
            let (model, _file) = model_for_version(version);
            let mut k = 0;
            let Ok(parent) = build_to(&model, walk_ref, t, &mut k) else {
                sub.count("sweep.types_not_reachable_through_the_api", 1);
                continue;
            };
            sub.count("sweep.parents_built", 1);
            // every sub element name the type knows in any version
            let mut names: Vec<ElementName> = t.sub_element_spec_iter().map(|(name, _, _, _)| name).collect();
            names.dedup();
            rng.shuffle(&mut names);
            let mut log: Vec<String> = Vec::new();
            for name in names.into_iter().take(10) {
                for variant in 0..4 {
                    let before = dump_full(&model);
                    let len = parent.content_item_count();
                    let pos = *rng.pick(&[0, len, len + 1, len / 2]);
                    let nm = format!("s{}", log.len());
                    let (what, res) = match variant {
                        0 => (format!("create_sub_element({name})"), crate::panicmon::catch(|| parent.create_sub_element(name).map(|_| ()))),
                        1 => (format!("create_named_sub_element({name}, {nm:?})"), crate::panicmon::catch(|| parent.create_named_sub_element(name, &nm).map(|_| ()))),
                        2 => (format!("create_sub_element_at({name}, {pos})"), crate::panicmon::catch(|| parent.create_sub_element_at(name, pos).map(|_| ()))),
                        _ => (format!("create_named_sub_element_at({name}, {nm:?}, {pos})"), crate::panicmon::catch(|| parent.create_named_sub_element_at(name, &nm, pos).map(|_| ()))),
                    };
                    let Ok(res) = res else {
                        sub.count("sweep.calls_cut_short_by_panic(belongs to C12)", 1);
                        crate::lockmon::reset_held();
                        break;
                    };
                    log.push(format!("{} <{}> in {version:?}: {what} -> {}", parent.xml_path(), parent.element_name(), match &res {
                        Ok(()) => "Ok".to_string(),
                        Err(e) => format!("Err({})", crate::hist::err_variant(e)),
                    }));
                    sub.evaluations += 1;
                    match res {
                        Ok(()) => sub.count("sweep.calls_ok", 1),
                        Err(e) => {
                            let variant_name = crate::hist::err_variant(&e);
                            sub.count("sweep.failing_calls_checked", 1);
                            sub.count(&format!("sweep.failing_calls.{variant_name}"), 1);
                            let after = dump_full(&model);
                            if after != before {
                                let kind = ["CreateSub", "CreateNamed", "CreateSubAt", "CreateNamedAt"][variant];
                                let section = classify(&before, &after);
                                sub.violation(
                                    "failed-call-has-effect",
                                    &format!("C11:failed-call-has-effect:{kind}:{variant_name}:{section}:sweep"),
                                    &format!("the call returned Err({variant_name}) but the model changed: {}\n  calls:\n    {}", crate::histprops::first_diff(&before, &after), log.iter().rev().take(6).rev().cloned().collect::<Vec<_>>().join("\n    ")),
                                    J::obj().with("engine", J::s("c11sweep")).with("seed", J::Int(seed as i64)).with("case", J::Int(case as i64)).with("calls", J::arr_of_str(log.iter().cloned())),
                                );
                            }
                        }
                    }
                }
            }
            sub.distinct.insert(hash_str(&log.join("\n")) ^ ti as u64);
            if case < 2 {
                sub.sample(J::obj().with("sweep_calls", J::arr_of_str(log.iter().take(8).cloned())));
            }
        }
    });
    rep.require("sweep.parents_built", (cases / 2) as u64);
    rep.require("sweep.failing_calls_checked", 10_000);
}
