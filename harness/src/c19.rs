//! C19 — pattern validators accept exactly the language of their published regex (TABLE engine)

use crate::json::{show_bytes, J};
use crate::report::Report;
use crate::rng::{hash_bytes, Rng};
use crate::rx::{Dfa, DEAD};
use crate::specwalk::SpecWalk;

struct Pair {
    regex: &'static str,
    check: fn(&[u8]) -> bool,
    dfa: Dfa,
}

/// where a string leaves (or ends in) the language: state of the minimal automaton + offending byte class
pub fn leave_key(dfa: &Dfa, s: &[u8]) -> String {
    let mut st = dfa.start;
    for b in s {
        let next = dfa.step(st, *b);
        if next == DEAD {
            let sym = dfa.byte_class[*b as usize];
            return format!("dies-in-q{st}-on-class-of-{}", show_bytes(&[dfa.reps[sym][0]], 4));
        }
        st = next;
    }
    format!("ends-in-q{st}")
}

fn judge(rep: &mut Report, p: &Pair, s: &[u8], class: &str) {
    rep.evaluations += 1;
    let expect = p.dfa.matches(s);
    let got = (p.check)(s);
    if expect {
        rep.count("members_tried", 1);
    } else {
        rep.count("non_members_tried", 1);
    }
    if got != expect {
        let kind = if got { "accepts-non-member" } else { "rejects-member" };
        let key = leave_key(&p.dfa, s);
        rep.violation(
            &format!("pattern/{kind}"),
            &format!("C19:pattern/{kind}:{}:{key}", p.regex),
            &format!("validator for /{}/ returns {got} for {:?} [{class}] but the regex {} it", p.regex, show_bytes(s, 120), if expect { "matches" } else { "does not match" }),
            J::obj().with("engine", J::s("table")).with("regex", J::s(p.regex)).with("input_hex", J::s(crate::json::hex_encode(s))).with("expected", J::Bool(expect)),
        );
    }
}

pub fn collect_pairs(rep: &mut Report) -> Vec<(&'static str, fn(&[u8]) -> bool, Option<usize>)> {
    let walk = SpecWalk::new();
    let mut pats = walk.patterns();
    // the same (regex, fn) may occur with different max_length; judge each function once per regex
    pats.sort_by_key(|(r, f, _)| (*r, *f as usize));
    pats.dedup_by_key(|(r, f, _)| (*r, *f as usize));
    rep.count("validator_regex_pairs", pats.len() as u64);
    pats
}

pub fn run(rep: &mut Report, tier: &str) {
    let thorough = tier == "thorough";
    rep.rule = "per (validator, regex) pair: all strings up to a length bound over the reduced alphabet (one representative per byte class induced by the regex's character sets), a W-method conformance set from the minimal DFA (transition cover x alphabet^<=m x characterising set, all class representatives), random members by DFA walks with all one-edit neighbours, length boundary members; distinct by (regex, string); non-trivial = every string (each is a lookup with a definite expected verdict)".into();
    rep.assumptions.push("reading of the dialect: \\d = [0-9], '.' = any byte except \\n, whole-string match on bytes (cross-checked against CPython re.fullmatch on bytes patterns by oracles/py/rxcross.py)".into());
    let pats = collect_pairs(rep);
    let mut pairs = Vec::new();
    for (regex, check, _) in pats {
        match Dfa::new(regex) {
            Ok(dfa) => pairs.push(Pair { regex, check, dfa }),
            Err(e) => rep.inconclusive(&format!("cannot build an automaton for /{regex}/: {e}")),
        }
    }
    // self test of the oracle against CPython
    crosscheck_python(rep, &pairs);

    let seed = rep.seed;
    let budget_exh: u64 = if thorough { 20_000_000 } else { 1_000_000 };
    let n_pairs = pairs.len();
    let pairs_ref = &pairs;
    crate::report::run_shards(rep, n_pairs, crate::report::cpu_count(), 16, |i, sub| {
        let p = &pairs_ref[i];
        let mut rng = Rng::derive(seed, "c19", i as u64);
        let d = &p.dfa;
        sub.count("dfa_states_total", d.states() as u64);
        // (1) exhaustive over the reduced alphabet (first representative of each class)
        let alphabet: Vec<u8> = d.reps.iter().map(|r| r[0]).collect();
        let k = alphabet.len() as u64;
        let mut len = 0usize;
        let mut total = 1u64;
        while len < 12 {
            let next = total.saturating_mul(k).saturating_add(1);
            if next > budget_exh {
                break;
            }
            total = next;
            len += 1;
        }
        let mut buf: Vec<u8> = Vec::new();
        fn rec(sub: &mut Report, p: &Pair, alphabet: &[u8], buf: &mut Vec<u8>, remaining: usize) {
            judge(sub, p, buf, "exhaustive");
            sub.distinct.insert(hash_bytes(buf) ^ hash_bytes(p.regex.as_bytes()));
            if remaining == 0 {
                return;
            }
            for a in alphabet {
                buf.push(*a);
                rec(sub, p, alphabet, buf, remaining - 1);
                buf.pop();
            }
        }
        rec(sub, p, &alphabet, &mut buf, len);
        sub.count("exhaustive_strings", total);
        sub.extra.insert(format!("exhaustive_length/{}", p.regex), J::Int(len as i64));
        // (2) W-method conformance set
        let access = d.access_strings();
        let w = d.characterising_set();
        let m_extra = if d.states() > 120 { 1 } else { 2 };
        let mut middles: Vec<Vec<usize>> = vec![vec![]];
        let mut frontier: Vec<Vec<usize>> = vec![vec![]];
        for _ in 0..m_extra {
            let mut next = Vec::new();
            for f in &frontier {
                for s in 0..d.n_symbols {
                    let mut g = f.clone();
                    g.push(s);
                    next.push(g);
                }
            }
            middles.extend(next.iter().cloned());
            frontier = next;
            if middles.len() > 4000 {
                break;
            }
        }
        let mut conformance = 0u64;
        for a in access.iter().flatten() {
            for sym in 0..=d.n_symbols {
                for mid in &middles {
                    for suffix in &w {
                        let mut word = a.clone();
                        if sym < d.n_symbols {
                            word.push(sym);
                        }
                        word.extend_from_slice(mid);
                        word.extend_from_slice(suffix);
                        // all representative choices for the symbols (first / last / middle byte of each class)
                        for choice in 0..3 {
                            let s = d.render(&word, choice);
                            judge(sub, p, &s, "conformance");
                            conformance += 1;
                            if conformance % 7 == 0 {
                                sub.distinct.insert(hash_bytes(&s) ^ hash_bytes(p.regex.as_bytes()));
                            }
                        }
                    }
                    if conformance > if thorough { 6_000_000 } else { 400_000 } {
                        break;
                    }
                }
            }
        }
        sub.count("conformance_strings", conformance);
        // (3) random members by walks + one edit neighbours
        let n_walks = if thorough { 100_000 } else { 6_000 };
        // distance to acceptance for guided walks
        let n = d.states();
        let mut dist = vec![usize::MAX; n];
        for s in 0..n {
            if d.accept[s] {
                dist[s] = 0;
            }
        }
        loop {
            let mut changed = false;
            for s in 0..n {
                for t in &d.trans[s] {
                    if *t != DEAD && dist[*t] != usize::MAX && dist[*t] + 1 < dist[s] {
                        dist[s] = dist[*t] + 1;
                        changed = true;
                    }
                }
            }
            if !changed {
                break;
            }
        }
        for wi in 0..n_walks {
            let target_len = match rng.below(10) {
                0..=5 => rng.range(1, 12),
                6 | 7 => rng.range(12, 40),
                8 => rng.range(40, 140),
                _ => rng.range(120, 300),
            };
            let mut st = d.start;
            let mut s: Vec<u8> = Vec::new();
            while s.len() < target_len + 40 {
                if d.accept[st] && s.len() >= target_len {
                    break;
                }
                let options: Vec<usize> = (0..d.n_symbols).filter(|sym| d.trans[st][*sym] != DEAD).collect();
                if options.is_empty() {
                    break;
                }
                let pick = if s.len() >= target_len {
                    // head for acceptance
                    *options.iter().min_by_key(|sym| dist[d.trans[st][**sym]]).unwrap()
                } else {
                    *rng.pick(&options)
                };
                let reps = &d.reps[pick];
                // any byte of the class: sample among representatives and a random member of the class
                let byte = if rng.chance(1, 3) {
                    let members: Vec<u8> = (0..=255u8).filter(|b| d.byte_class[*b as usize] == pick).collect();
                    *rng.pick(&members)
                } else {
                    *rng.pick(reps)
                };
                s.push(byte);
                st = d.trans[st][pick];
            }
            judge(sub, p, &s, "random walk");
            sub.distinct.insert(hash_bytes(&s) ^ hash_bytes(p.regex.as_bytes()));
            if wi % 4 == 0 && s.len() < 80 {
                // one edit neighbours
                for i in 0..=s.len() {
                    for b in [b'0', b'a', b'Z', b'_', b'-', b'.', b' ', b'/', b':', 0u8, 0xffu8, b'\n'] {
                        let mut t = s.clone();
                        t.insert(i, b);
                        judge(sub, p, &t, "neighbour:insert");
                        if i < s.len() {
                            let mut t = s.clone();
                            t[i] = b;
                            judge(sub, p, &t, "neighbour:replace");
                        }
                    }
                    if i < s.len() {
                        let mut t = s.clone();
                        t.remove(i);
                        judge(sub, p, &t, "neighbour:delete");
                    }
                }
            }
        }
        // (4) long inputs
        for b in alphabet.iter() {
            for n in [127usize, 128, 129, 255, 256, 1000] {
                let s = vec![*b; n];
                judge(sub, p, &s, "long run");
            }
        }
        judge(sub, p, b"", "empty");
        if i < 3 {
            sub.sample(J::obj().with("regex", J::s(p.regex)).with("dfa_states", J::Int(d.states() as i64)).with("byte_classes", J::Int(d.n_symbols as i64)).with("exhaustive_length", J::Int(len as i64)));
        }
        sub.name_in("regexes", p.regex);
    });
    rep.require("validator_regex_pairs", 28);
    rep.require("members_tried", 10_000);
    rep.require("non_members_tried", 100_000);
    rep.exhaustive = Some(false);
}

/// compare the automaton with CPython's re.fullmatch on sampled strings; a disagreement makes the run inconclusive
fn crosscheck_python(rep: &mut Report, pairs: &[Pair]) {
    let root = crate::report::verif_root();
    let script = root.join("oracles/py/rxcross.py");
    let dir = root.join("harness/target/tmp");
    let _ = std::fs::create_dir_all(&dir);
    let input = dir.join(format!("rxcross-{}.jsonl", std::process::id()));
    let mut rng = Rng::derive(rep.seed, "rxcross", 0);
    let mut lines = String::new();
    for p in pairs {
        let d = &p.dfa;
        let mut items = Vec::new();
        for _ in 0..400 {
            // random walk, sometimes derailed
            let mut st = d.start;
            let mut s = Vec::new();
            let n = rng.range(0, 14);
            for _ in 0..n {
                let options: Vec<usize> = (0..d.n_symbols).filter(|sym| st != DEAD && d.trans[st][*sym] != DEAD).collect();
                let sym = if options.is_empty() || rng.chance(1, 8) { rng.below(d.n_symbols) } else { *rng.pick(&options) };
                s.push(*rng.pick(&d.reps[sym]));
                st = if st == DEAD { DEAD } else { d.trans[st][sym] };
            }
            items.push(J::Arr(vec![J::s(crate::json::hex_encode(&s)), J::Bool(d.matches(&s))]));
        }
        lines.push_str(&J::obj().with("regex", J::s(p.regex)).with("cases", J::Arr(items)).to_string_compact());
        lines.push('\n');
    }
    if std::fs::write(&input, lines).is_err() {
        rep.inconclusive("cannot write the input of the regex oracle self test");
        return;
    }
    let out = std::process::Command::new("python3").arg(&script).arg(&input).output();
    let _ = std::fs::remove_file(&input);
    match out {
        Ok(o) if o.status.success() => {
            let text = String::from_utf8_lossy(&o.stdout);
            let checked: u64 = text.lines().find_map(|l| l.strip_prefix("checked=")).and_then(|v| v.trim().parse().ok()).unwrap_or(0);
            rep.count("oracle_selftest_strings_vs_cpython", checked);
            if checked == 0 {
                rep.inconclusive("regex oracle self test checked nothing");
            }
        }
        Ok(o) => rep.inconclusive(&format!("regex oracle disagrees with CPython re: {}", String::from_utf8_lossy(&o.stdout).lines().take(3).collect::<Vec<_>>().join(" | "))),
        Err(e) => rep.inconclusive(&format!("cannot run python3 for the regex oracle self test: {e}")),
    }
}
