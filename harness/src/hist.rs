//! HIST engine: worlds (models + handle pools), operations, execution, generation

use crate::c18::{ATTRIBUTE_NAME_LISTING, ELEMENT_NAME_LISTING};
use crate::panicmon::{self, Abnormal};
use crate::rng::Rng;
use crate::specwalk::ALL_VERSIONS;
use crate::values::*;
use crate::walk::*;
use autosar_data::*;
use autosar_data_specification::{CharacterDataSpec, ContentMode};
use std::collections::HashMap;

pub struct World {
    pub models: Vec<AutosarModel>,
    pub trees: Vec<Tree>,
    pub elems: Vec<Element>,
    pub elem_ids: HashMap<Element, usize>,
    pub files: Vec<ArxmlFile>,
    pub rng: Rng,
    pub file_counter: usize,
    pub log: Vec<String>,
    pub masks: Masks,
    pub pending: std::collections::VecDeque<Op>,
    /// element returned by the last create/copy/move call
    pub last_created: Option<Element>,
    /// model returned by the last duplicate() call
    pub last_model: Option<AutosarModel>,
}

/// triggers of known findings that generators avoid (each has a deterministic witness elsewhere)
#[derive(Clone, Copy, Debug)]
pub struct Masks {
    /// do not produce text values with leading/trailing whitespace (editor accepts what the loader trims)
    pub no_edge_whitespace: bool,
    /// do not move/copy non-identifiable containers that hold identifiable elements into another parent
    pub no_container_moves: bool,
    /// do not remove the root element from all files one by one
    pub no_root_remove_from_file: bool,
    /// do not load buffers that are rejected after the merge started
    pub no_failing_merge: bool,
    /// do not use names that make Element::cmp intransitive together (a2/a10/a1b)
    pub no_cyclic_names: bool,
    /// sort the model before a file of it is loaded into it again (the merge assumes both sides list different kinds in specification order)
    pub no_unsorted_merge: bool,
    /// do not edit the attributes of the AUTOSAR root element (xmlns etc. are free strings for the editor, fixed values for the loader)
    pub no_root_attr_edit: bool,
    /// do not give SHORT-NAME elements a file set of their own
    pub no_shortname_membership: bool,
    /// do not move/copy an element to a parent where its element name denotes a different element type
    pub no_type_changing_moves: bool,
    /// do not duplicate models whose files have different versions (duplicate() copies with the lowest version as filter)
    pub no_mixed_version_duplicate: bool,
}

impl Default for Masks {
    fn default() -> Self {
        Masks {
            no_edge_whitespace: true,
            no_container_moves: true,
            no_root_remove_from_file: true,
            no_failing_merge: true,
            no_cyclic_names: false,
            no_unsorted_merge: true,
            no_root_attr_edit: true,
            no_shortname_membership: true,
            no_type_changing_moves: true,
            no_mixed_version_duplicate: true,
        }
    }
}

#[derive(Clone, Debug)]
pub enum Op {
    CreateSub { p: usize, name: ElementName },
    CreateSubAt { p: usize, name: ElementName, pos: usize },
    CreateNamed { p: usize, name: ElementName, item: String },
    CreateNamedAt { p: usize, name: ElementName, item: String, pos: usize },
    GetOrCreate { p: usize, name: ElementName },
    GetOrCreateNamed { p: usize, name: ElementName, item: String },
    Copy { p: usize, src: usize },
    CopyAt { p: usize, src: usize, pos: usize },
    Move { p: usize, src: usize },
    MoveAt { p: usize, src: usize, pos: usize },
    Remove { p: usize, child: usize },
    RemoveKind { p: usize, name: ElementName },
    Rename { e: usize, item: String },
    SetRefTarget { e: usize, target: usize },
    SetData { e: usize, value: CharacterData },
    RemoveData { e: usize },
    InsertText { e: usize, text: String, pos: usize },
    RemoveText { e: usize, pos: usize },
    SetAttr { e: usize, attr: AttributeName, value: CharacterData },
    SetAttrStr { e: usize, attr: AttributeName, text: String },
    RemoveAttr { e: usize, attr: AttributeName },
    Sort { e: usize },
    SortModel { m: usize },
    SetComment { e: usize, comment: Option<String> },
    AddToFile { e: usize, f: usize },
    RemoveFromFile { e: usize, f: usize },
    CreateFile { m: usize, name: String, version: AutosarVersion },
    LoadBuffer { m: usize, text: String, name: String, strict: bool },
    /// serialize file f of model m and load the text into m under a new name (always preceded by a sort of m)
    LoadSelf { m: usize, f: usize, name: String, strict: bool },
    /// get-or-create a chain of elements below the root (used to prepare merge conflicts)
    EnsureChain { m: usize, chain: Vec<(ElementName, Option<String>)> },
    RemoveFile { m: usize, f: usize },
    Duplicate { m: usize },
    SetVersion { f: usize, version: AutosarVersion },
    SetFilename { f: usize, name: String },
    Readers { e: usize },
    ModelReaders { m: usize },
    FileReaders { f: usize },
    Cmp { a: usize, b: usize },
}

#[derive(Clone, Copy, Debug, PartialEq, Eq, Hash, PartialOrd, Ord)]
pub enum Kind {
    CreateSub,
    CreateSubAt,
    CreateNamed,
    CreateNamedAt,
    GetOrCreate,
    GetOrCreateNamed,
    Copy,
    CopyAt,
    Move,
    MoveAt,
    Remove,
    RemoveKind,
    Rename,
    SetRefTarget,
    SetData,
    RemoveData,
    InsertText,
    RemoveText,
    SetAttr,
    SetAttrStr,
    RemoveAttr,
    Sort,
    SortModel,
    SetComment,
    AddToFile,
    RemoveFromFile,
    CreateFile,
    LoadBuffer,
    LoadSelf,
    EnsureChain,
    MergeConflict,
    RemoveFile,
    Duplicate,
    SetVersion,
    SetFilename,
    Readers,
    ModelReaders,
    FileReaders,
    Cmp,
}

pub const ALL_KINDS: [Kind; 39] = [
    Kind::CreateSub,
    Kind::CreateSubAt,
    Kind::CreateNamed,
    Kind::CreateNamedAt,
    Kind::GetOrCreate,
    Kind::GetOrCreateNamed,
    Kind::Copy,
    Kind::CopyAt,
    Kind::Move,
    Kind::MoveAt,
    Kind::Remove,
    Kind::RemoveKind,
    Kind::Rename,
    Kind::SetRefTarget,
    Kind::SetData,
    Kind::RemoveData,
    Kind::InsertText,
    Kind::RemoveText,
    Kind::SetAttr,
    Kind::SetAttrStr,
    Kind::RemoveAttr,
    Kind::Sort,
    Kind::SortModel,
    Kind::SetComment,
    Kind::AddToFile,
    Kind::RemoveFromFile,
    Kind::CreateFile,
    Kind::LoadBuffer,
    Kind::LoadSelf,
    Kind::EnsureChain,
    Kind::MergeConflict,
    Kind::RemoveFile,
    Kind::Duplicate,
    Kind::SetVersion,
    Kind::SetFilename,
    Kind::Readers,
    Kind::ModelReaders,
    Kind::FileReaders,
    Kind::Cmp,
];

impl Op {
    pub fn kind(&self) -> Kind {
        match self {
            Op::CreateSub { .. } => Kind::CreateSub,
            Op::CreateSubAt { .. } => Kind::CreateSubAt,
            Op::CreateNamed { .. } => Kind::CreateNamed,
            Op::CreateNamedAt { .. } => Kind::CreateNamedAt,
            Op::GetOrCreate { .. } => Kind::GetOrCreate,
            Op::GetOrCreateNamed { .. } => Kind::GetOrCreateNamed,
            Op::Copy { .. } => Kind::Copy,
            Op::CopyAt { .. } => Kind::CopyAt,
            Op::Move { .. } => Kind::Move,
            Op::MoveAt { .. } => Kind::MoveAt,
            Op::Remove { .. } => Kind::Remove,
            Op::RemoveKind { .. } => Kind::RemoveKind,
            Op::Rename { .. } => Kind::Rename,
            Op::SetRefTarget { .. } => Kind::SetRefTarget,
            Op::SetData { .. } => Kind::SetData,
            Op::RemoveData { .. } => Kind::RemoveData,
            Op::InsertText { .. } => Kind::InsertText,
            Op::RemoveText { .. } => Kind::RemoveText,
            Op::SetAttr { .. } => Kind::SetAttr,
            Op::SetAttrStr { .. } => Kind::SetAttrStr,
            Op::RemoveAttr { .. } => Kind::RemoveAttr,
            Op::Sort { .. } => Kind::Sort,
            Op::SortModel { .. } => Kind::SortModel,
            Op::SetComment { .. } => Kind::SetComment,
            Op::AddToFile { .. } => Kind::AddToFile,
            Op::RemoveFromFile { .. } => Kind::RemoveFromFile,
            Op::CreateFile { .. } => Kind::CreateFile,
            Op::LoadBuffer { .. } => Kind::LoadBuffer,
            Op::LoadSelf { .. } => Kind::LoadSelf,
            Op::EnsureChain { .. } => Kind::EnsureChain,
            Op::RemoveFile { .. } => Kind::RemoveFile,
            Op::Duplicate { .. } => Kind::Duplicate,
            Op::SetVersion { .. } => Kind::SetVersion,
            Op::SetFilename { .. } => Kind::SetFilename,
            Op::Readers { .. } => Kind::Readers,
            Op::ModelReaders { .. } => Kind::ModelReaders,
            Op::FileReaders { .. } => Kind::FileReaders,
            Op::Cmp { .. } => Kind::Cmp,
        }
    }

    /// the element handles through which the call is made or which it depends on for its place in the model
    pub fn place_dependent_handles(&self) -> Vec<usize> {
        match self {
            Op::CreateSub { p, .. }
            | Op::CreateSubAt { p, .. }
            | Op::CreateNamed { p, .. }
            | Op::CreateNamedAt { p, .. }
            | Op::GetOrCreate { p, .. }
            | Op::GetOrCreateNamed { p, .. }
            | Op::Copy { p, .. }
            | Op::CopyAt { p, .. }
            | Op::Remove { p, .. }
            | Op::RemoveKind { p, .. } => vec![*p],
            Op::Move { p, src } | Op::MoveAt { p, src, .. } => vec![*p, *src],
            Op::Rename { e, .. } | Op::AddToFile { e, .. } | Op::RemoveFromFile { e, .. } => vec![*e],
            _ => vec![],
        }
    }

    /// the receiver element of the call, if the call is made through an element handle
    pub fn receiver(&self) -> Option<usize> {
        match self {
            Op::CreateSub { p, .. }
            | Op::CreateSubAt { p, .. }
            | Op::CreateNamed { p, .. }
            | Op::CreateNamedAt { p, .. }
            | Op::GetOrCreate { p, .. }
            | Op::GetOrCreateNamed { p, .. }
            | Op::Copy { p, .. }
            | Op::CopyAt { p, .. }
            | Op::Move { p, .. }
            | Op::MoveAt { p, .. }
            | Op::Remove { p, .. }
            | Op::RemoveKind { p, .. } => Some(*p),
            Op::Rename { e, .. }
            | Op::SetRefTarget { e, .. }
            | Op::SetData { e, .. }
            | Op::RemoveData { e }
            | Op::InsertText { e, .. }
            | Op::RemoveText { e, .. }
            | Op::SetAttr { e, .. }
            | Op::SetAttrStr { e, .. }
            | Op::RemoveAttr { e, .. }
            | Op::Sort { e }
            | Op::SetComment { e, .. }
            | Op::AddToFile { e, .. }
            | Op::RemoveFromFile { e, .. }
            | Op::Readers { e } => Some(*e),
            Op::Cmp { a, .. } => Some(*a),
            _ => None,
        }
    }
}

#[derive(Clone, Debug)]
pub enum Outcome {
    Ok(String),
    Err(String, String),
    Abnormal(Abnormal),
}

impl Outcome {
    pub fn is_ok(&self) -> bool {
        matches!(self, Outcome::Ok(_))
    }
    pub fn is_err(&self) -> bool {
        matches!(self, Outcome::Err(..))
    }
    pub fn short(&self) -> String {
        match self {
            Outcome::Ok(s) => format!("Ok({})", s.chars().take(60).collect::<String>()),
            Outcome::Err(v, _) => format!("Err({v})"),
            Outcome::Abnormal(a) => format!("ABNORMAL({})", a.describe()),
        }
    }
    pub fn err_variant(&self) -> Option<&str> {
        if let Outcome::Err(v, _) = self {
            Some(v)
        } else {
            None
        }
    }
}

pub fn err_variant(e: &AutosarDataError) -> String {
    let d = format!("{e:?}");
    let end = d.find(|c: char| !(c.is_alphanumeric() || c == '_')).unwrap_or(d.len());
    let mut v = d[..end].to_string();
    // parser errors: append the inner variant
    if let AutosarDataError::ParserError { source, .. } = e {
        let s = format!("{source:?}");
        let end = s.find(|c: char| !(c.is_alphanumeric() || c == '_')).unwrap_or(s.len());
        v = format!("ParserError/{}", &s[..end]);
    }
    if let AutosarDataError::LexerError { source, .. } = e {
        v = format!("LexerError/{source:?}");
    }
    v
}

fn res<T>(r: Result<T, AutosarDataError>, ok: impl FnOnce(T) -> String) -> Outcome {
    match r {
        Ok(v) => Outcome::Ok(ok(v)),
        Err(e) => Outcome::Err(err_variant(&e), e.to_string()),
    }
}

pub const HDR: &str = "<?xml version=\"1.0\" encoding=\"utf-8\"?>\n<AUTOSAR xsi:schemaLocation=\"http://autosar.org/schema/r4.0 AUTOSAR_00050.xsd\" xmlns=\"http://autosar.org/schema/r4.0\" xmlns:xsi=\"http://www.w3.org/2001/XMLSchema-instance\">";

impl World {
    pub fn new(rng: Rng) -> World {
        World {
            models: Vec::new(),
            trees: Vec::new(),
            elems: Vec::new(),
            elem_ids: HashMap::new(),
            files: Vec::new(),
            rng,
            file_counter: 0,
            log: Vec::new(),
            masks: Masks::default(),
            pending: std::collections::VecDeque::new(),
            last_created: None,
            last_model: None,
        }
    }

    pub fn add_model(&mut self, m: AutosarModel) -> usize {
        self.models.push(m);
        self.models.len() - 1
    }

    pub fn intern(&mut self, e: &Element) -> usize {
        if let Some(i) = self.elem_ids.get(e) {
            return *i;
        }
        let i = self.elems.len();
        self.elems.push(e.clone());
        self.elem_ids.insert(e.clone(), i);
        i
    }

    pub fn intern_file(&mut self, f: &ArxmlFile) -> usize {
        if let Some(i) = self.files.iter().position(|x| x == f) {
            return i;
        }
        self.files.push(f.clone());
        self.files.len() - 1
    }

    /// re-walk all models and add every element and file seen to the pools
    pub fn refresh(&mut self) {
        self.trees = self.models.iter().map(Tree::of_model).collect();
        let mut new_elems = Vec::new();
        for t in &self.trees {
            for n in &t.nodes {
                if !self.elem_ids.contains_key(&n.elem) {
                    new_elems.push(n.elem.clone());
                }
            }
        }
        for e in new_elems {
            if self.elems.len() < 6000 {
                self.intern(&e);
            }
        }
        let files: Vec<ArxmlFile> = self.models.iter().flat_map(|m| m.files()).collect();
        for f in files {
            self.intern_file(&f);
        }
    }

    /// which model's tree contains the element
    pub fn home(&self, e: &Element) -> Option<usize> {
        self.trees.iter().position(|t| t.contains(e))
    }

    pub fn is_live(&self, idx: usize) -> bool {
        self.home(&self.elems[idx]).is_some()
    }

    pub fn desc(&self, idx: usize) -> String {
        let e = &self.elems[idx];
        let live = match self.home(e) {
            Some(m) => format!("m{m}:{}", self.trees[m].pos_path_of(e).unwrap_or_default()),
            None => "stale".to_string(),
        };
        format!("E{idx}<{} {live}>", e.element_name().to_str())
    }

    pub fn fdesc(&self, idx: usize) -> String {
        let f = &self.files[idx];
        let m = self.models.iter().position(|m| m.files().any(|x| &x == f));
        format!("F{idx}<{} {}>", file_label(f), m.map_or("removed".to_string(), |m| format!("m{m}")))
    }

    pub fn describe(&self, op: &Op) -> String {
        let d = |i: &usize| self.desc(*i);
        match op {
            Op::CreateSub { p, name } => format!("{}.create_sub_element({name:?})", d(p)),
            Op::CreateSubAt { p, name, pos } => format!("{}.create_sub_element_at({name:?}, {pos})", d(p)),
            Op::CreateNamed { p, name, item } => format!("{}.create_named_sub_element({name:?}, {item:?})", d(p)),
            Op::CreateNamedAt { p, name, item, pos } => format!("{}.create_named_sub_element_at({name:?}, {item:?}, {pos})", d(p)),
            Op::GetOrCreate { p, name } => format!("{}.get_or_create_sub_element({name:?})", d(p)),
            Op::GetOrCreateNamed { p, name, item } => format!("{}.get_or_create_named_sub_element({name:?}, {item:?})", d(p)),
            Op::Copy { p, src } => format!("{}.create_copied_sub_element({})", d(p), d(src)),
            Op::CopyAt { p, src, pos } => format!("{}.create_copied_sub_element_at({}, {pos})", d(p), d(src)),
            Op::Move { p, src } => format!("{}.move_element_here({})", d(p), d(src)),
            Op::MoveAt { p, src, pos } => format!("{}.move_element_here_at({}, {pos})", d(p), d(src)),
            Op::Remove { p, child } => format!("{}.remove_sub_element({})", d(p), d(child)),
            Op::RemoveKind { p, name } => format!("{}.remove_sub_element_kind({name:?})", d(p)),
            Op::Rename { e, item } => format!("{}.set_item_name({item:?})", d(e)),
            Op::SetRefTarget { e, target } => format!("{}.set_reference_target({})", d(e), d(target)),
            Op::SetData { e, value } => format!("{}.set_character_data({})", d(e), cdata_str(value)),
            Op::RemoveData { e } => format!("{}.remove_character_data()", d(e)),
            Op::InsertText { e, text, pos } => format!("{}.insert_character_content_item({text:?}, {pos})", d(e)),
            Op::RemoveText { e, pos } => format!("{}.remove_character_content_item({pos})", d(e)),
            Op::SetAttr { e, attr, value } => format!("{}.set_attribute({attr:?}, {})", d(e), cdata_str(value)),
            Op::SetAttrStr { e, attr, text } => format!("{}.set_attribute_string({attr:?}, {text:?})", d(e)),
            Op::RemoveAttr { e, attr } => format!("{}.remove_attribute({attr:?})", d(e)),
            Op::Sort { e } => format!("{}.sort()", d(e)),
            Op::SortModel { m } => format!("m{m}.sort()"),
            Op::SetComment { e, comment } => format!("{}.set_comment({comment:?})", d(e)),
            Op::AddToFile { e, f } => format!("{}.add_to_file({})", d(e), self.fdesc(*f)),
            Op::RemoveFromFile { e, f } => format!("{}.remove_from_file({})", d(e), self.fdesc(*f)),
            Op::CreateFile { m, name, version } => format!("m{m}.create_file({name:?}, {version:?})"),
            Op::LoadBuffer { m, text, name, strict } => format!("m{m}.load_buffer(<{} bytes: {}>, {name:?}, strict={strict})", text.len(), crate::json::show_bytes(text.as_bytes().get(HDR.len().min(text.len())..).unwrap_or(b""), 300)),
            Op::LoadSelf { m, f, name, strict } => format!("m{m}.load_buffer(serialize({}), {name:?}, strict={strict})", self.fdesc(*f)),
            Op::EnsureChain { m, chain } => format!("m{m}.root.get_or_create chain {:?}", chain.iter().map(|(n, i)| format!("{}{}", n.to_str(), i.as_ref().map_or(String::new(), |i| format!("[{i}]")))).collect::<Vec<_>>()),
            Op::RemoveFile { m, f } => format!("m{m}.remove_file({})", self.fdesc(*f)),
            Op::Duplicate { m } => format!("m{m}.duplicate()"),
            Op::SetVersion { f, version } => format!("{}.set_version({version:?})", self.fdesc(*f)),
            Op::SetFilename { f, name } => format!("{}.set_filename({name:?})", self.fdesc(*f)),
            Op::Readers { e } => format!("readers({})", d(e)),
            Op::ModelReaders { m } => format!("readers(m{m})"),
            Op::FileReaders { f } => format!("readers({})", self.fdesc(*f)),
            Op::Cmp { a, b } => format!("{}.cmp({})", d(a), d(b)),
        }
    }

    /// execute one operation against the real library; panics and self-deadlocks are caught
    pub fn exec(&mut self, op: &Op) -> Outcome {
        let r = panicmon::catch(|| self.exec_inner(op));
        match r {
            Ok(o) => o,
            Err(ab) => {
                crate::lockmon::reset_held();
                Outcome::Abnormal(ab)
            }
        }
    }

    fn exec_inner(&mut self, op: &Op) -> Outcome {
        self.last_created = None;
        let created = std::cell::RefCell::new(None);
        let keep = |r: Result<Element, AutosarDataError>| {
            if let Ok(e) = &r {
                *created.borrow_mut() = Some(e.clone());
            }
            r
        };
        let out = self.exec_match(op, &keep);
        self.last_created = created.into_inner();
        out
    }

    fn exec_match(&mut self, op: &Op, keep: &dyn Fn(Result<Element, AutosarDataError>) -> Result<Element, AutosarDataError>) -> Outcome {
        let el = |i: &usize| self.elems[*i].clone();
        match op {
            Op::CreateSub { p, name } => res(keep(el(p).create_sub_element(*name)), |_| "elem".into()),
            Op::CreateSubAt { p, name, pos } => res(keep(el(p).create_sub_element_at(*name, *pos)), |_| "elem".into()),
            Op::CreateNamed { p, name, item } => res(keep(el(p).create_named_sub_element(*name, item)), |_| "elem".into()),
            Op::CreateNamedAt { p, name, item, pos } => res(keep(el(p).create_named_sub_element_at(*name, item, *pos)), |_| "elem".into()),
            Op::GetOrCreate { p, name } => res(keep(el(p).get_or_create_sub_element(*name)), |_| "elem".into()),
            Op::GetOrCreateNamed { p, name, item } => res(keep(el(p).get_or_create_named_sub_element(*name, item)), |_| "elem".into()),
            Op::Copy { p, src } => res(keep(el(p).create_copied_sub_element(&el(src))), |e| format!("copy name={:?}", e.item_name())),
            Op::CopyAt { p, src, pos } => res(keep(el(p).create_copied_sub_element_at(&el(src), *pos)), |e| format!("copy name={:?}", e.item_name())),
            Op::Move { p, src } => res(keep(el(p).move_element_here(&el(src))), |e| format!("moved name={:?}", e.item_name())),
            Op::MoveAt { p, src, pos } => res(keep(el(p).move_element_here_at(&el(src), *pos)), |e| format!("moved name={:?}", e.item_name())),
            Op::Remove { p, child } => res(el(p).remove_sub_element(el(child)), |()| String::new()),
            Op::RemoveKind { p, name } => res(el(p).remove_sub_element_kind(*name), |()| String::new()),
            Op::Rename { e, item } => res(el(e).set_item_name(item), |()| String::new()),
            Op::SetRefTarget { e, target } => res(el(e).set_reference_target(&el(target)), |()| String::new()),
            Op::SetData { e, value } => res(el(e).set_character_data(value.clone()), |()| String::new()),
            Op::RemoveData { e } => res(el(e).remove_character_data(), |()| String::new()),
            Op::InsertText { e, text, pos } => res(el(e).insert_character_content_item(text, *pos), |()| String::new()),
            Op::RemoveText { e, pos } => res(el(e).remove_character_content_item(*pos), |()| String::new()),
            Op::SetAttr { e, attr, value } => res(el(e).set_attribute(*attr, value.clone()), |()| String::new()),
            Op::SetAttrStr { e, attr, text } => res(el(e).set_attribute_string(*attr, text), |()| String::new()),
            Op::RemoveAttr { e, attr } => Outcome::Ok(format!("{}", el(e).remove_attribute(*attr))),
            Op::Sort { e } => {
                el(e).sort();
                Outcome::Ok(String::new())
            }
            Op::SortModel { m } => {
                self.models[*m].sort();
                Outcome::Ok(String::new())
            }
            Op::SetComment { e, comment } => {
                el(e).set_comment(comment.clone());
                Outcome::Ok(String::new())
            }
            Op::AddToFile { e, f } => res(el(e).add_to_file(&self.files[*f]), |()| String::new()),
            Op::RemoveFromFile { e, f } => res(el(e).remove_from_file(&self.files[*f]), |()| String::new()),
            Op::CreateFile { m, name, version } => {
                let r = self.models[*m].create_file(name, *version);
                if let Ok(f) = &r {
                    self.intern_file(f);
                }
                res(r, |_| "file".into())
            }
            Op::LoadBuffer { m, text, name, strict } => {
                let r = self.models[*m].load_buffer(text.as_bytes(), name, *strict);
                if let Ok((f, _)) = &r {
                    self.intern_file(f);
                }
                res(r, |(_, w)| format!("file warnings={}", w.len()))
            }
            Op::LoadSelf { m, f, name, strict } => {
                match self.files[*f].serialize() {
                    Ok(text) => {
                        let r = self.models[*m].load_buffer(text.as_bytes(), name, *strict);
                        if let Ok((f, _)) = &r {
                            self.intern_file(f);
                        }
                        res(r, |(_, w)| format!("file warnings={}", w.len()))
                    }
                    Err(e) => Outcome::Err(format!("serialize:{}", err_variant(&e)), e.to_string()),
                }
            }
            Op::EnsureChain { m, chain } => {
                let mut cur = self.models[*m].root_element();
                for (name, item) in chain {
                    let r = match item {
                        Some(item) => cur.get_or_create_named_sub_element(*name, item),
                        None => cur.get_or_create_sub_element(*name),
                    };
                    match r {
                        Ok(e) => cur = e,
                        Err(e) => return Outcome::Err(err_variant(&e), e.to_string()),
                    }
                }
                Outcome::Ok("chain".into())
            }
            Op::RemoveFile { m, f } => {
                self.models[*m].remove_file(&self.files[*f]);
                Outcome::Ok(String::new())
            }
            Op::Duplicate { m } => {
                let r = self.models[*m].duplicate();
                if let Ok(copy) = &r {
                    self.last_model = Some(copy.clone());
                    if self.models.len() < 4 {
                        self.models.push(copy.clone());
                    }
                }
                res(r, |_| "model".into())
            }
            Op::SetVersion { f, version } => res(self.files[*f].set_version(*version), |()| String::new()),
            Op::SetFilename { f, name } => res(self.files[*f].set_filename(name), |()| String::new()),
            Op::Readers { e } => Outcome::Ok(element_readers(&el(e))),
            Op::ModelReaders { m } => Outcome::Ok(model_readers(&self.models[*m])),
            Op::FileReaders { f } => Outcome::Ok(file_readers(&self.files[*f])),
            Op::Cmp { a, b } => {
                let (x, y) = (el(a), el(b));
                let c1 = x.cmp(&y);
                let c2 = y.cmp(&x);
                let _ = x.partial_cmp(&y);
                Outcome::Ok(format!("{c1:?}/{c2:?}"))
            }
        }
    }
}

/// battery of read-only calls on an element; returns a digest of what was observed
pub fn element_readers(e: &Element) -> String {
    use std::fmt::Write as _;
    use std::hash::{Hash, Hasher};
    let mut s = String::new();
    let _ = write!(s, "parent={:?};", e.parent().map(|p| p.map(|p| p.element_name())).map_err(|x| err_variant(&x)));
    let _ = write!(s, "named_parent={:?};", e.named_parent().map(|p| p.map(|p| p.element_name())).map_err(|x| err_variant(&x)));
    let _ = write!(s, "name={:?};type_ref={};ident={};", e.element_name(), e.is_reference(), e.is_identifiable());
    let _ = write!(s, "item={:?};path={:?};", e.item_name(), e.path().map_err(|x| err_variant(&x)));
    let _ = write!(s, "model={:?};", e.model().map(|_| ()).map_err(|x| err_variant(&x)));
    let _ = write!(s, "ct={:?};cnt={};cd={:?};", e.content_type(), e.content_item_count(), e.character_data().map(|c| cdata_str(&c)));
    let _ = write!(s, "pos={:?};", e.position());
    let _ = write!(s, "subs={};", e.sub_elements().count());
    let _ = write!(s, "content={};", e.content().count());
    let _ = write!(s, "first={:?};", e.get_sub_element_at(0).map(|x| x.element_name()));
    let _ = write!(s, "sn={:?};", e.get_sub_element(ElementName::ShortName).is_some());
    let _ = write!(s, "dfs={};dfs1={};", e.elements_dfs().count(), e.elements_dfs_with_max_depth(1).count());
    let _ = write!(s, "attrs={};dest={:?};", e.attributes().count(), e.attribute_value(AttributeName::Dest).map(|c| cdata_str(&c)));
    let _ = write!(s, "ser={};", e.serialize().len());
    let _ = write!(s, "valid={};", e.list_valid_sub_elements().len());
    let _ = write!(s, "fm={:?};", e.file_membership().map(|(l, s)| (l, s.len())).map_err(|x| err_variant(&x)));
    let _ = write!(s, "minver={:?};", e.min_version().map_err(|x| err_variant(&x)));
    let _ = write!(s, "xml_path={};", e.xml_path());
    let _ = write!(s, "range={:?};", e.calc_element_insert_range(ElementName::ShortName, AutosarVersion::Autosar_00050).map_err(|x| err_variant(&x)));
    let _ = write!(s, "target={:?};", e.get_reference_target().map(|t| t.element_name()).map_err(|x| err_variant(&x)));
    let _ = write!(s, "comment={:?};", e.comment());
    let dbg = format!("{e:?}");
    let _ = write!(s, "dbg={};", dbg.len());
    let w = e.downgrade();
    let _ = write!(s, "weak={};wdbg={};", w.upgrade().is_some(), format!("{w:?}").len());
    let mut h = std::collections::hash_map::DefaultHasher::new();
    e.hash(&mut h);
    w.hash(&mut h);
    let _ = h.finish();
    let et = e.element_type();
    let _ = write!(s, "et={:?}/{:?}/{}/{}/{:?};", et.content_mode(), et.chardata_spec().is_some(), et.is_named(), et.splittable(), et.std_restriction());
    for item in e.content().take(3) {
        let _ = write!(s, "c={};", format!("{item:?}").len());
        let _ = item.unwrap_element();
        let _ = item.unwrap_cdata();
    }
    if let Some(cd) = e.character_data() {
        let _ = write!(
            s,
            "cdv={:?}/{:?}/{:?}/{:?}/{:?}/{:?}/{:?}/{};",
            cd.enum_value(),
            cd.string_value(),
            cd.unsigned_integer_value(),
            cd.float_value().map(f64::to_bits),
            cd.parse_integer::<i32>(),
            cd.parse_float().map(f64::to_bits),
            cd.parse_bool(),
            cd
        );
    }
    s
}

pub fn model_readers(m: &AutosarModel) -> String {
    use std::fmt::Write as _;
    let mut s = String::new();
    let _ = write!(s, "files={};", m.files().count());
    let _ = write!(s, "root={:?};", m.root_element().element_name());
    let _ = write!(s, "dfs={};dfs2={};", m.elements_dfs().count(), m.elements_dfs_with_max_depth(2).count());
    let ids: Vec<(String, WeakElement)> = m.identifiable_elements().collect();
    let _ = write!(s, "ids={};", ids.len());
    for (p, _) in ids.iter().take(5) {
        let _ = write!(s, "get={};refs={};", m.get_element_by_path(p).is_some(), m.get_references_to(p).len());
    }
    let _ = write!(s, "none={};", m.get_element_by_path("/does/not/exist").is_some());
    let _ = write!(s, "broken={};", m.check_references().len());
    let ser = m.serialize_files();
    let _ = write!(s, "ser={};", ser.len());
    let _ = write!(s, "dbg={};", format!("{m:?}").len());
    let _ = write!(s, "eq={};", *m == m.clone());
    s
}

pub fn file_readers(f: &ArxmlFile) -> String {
    use std::fmt::Write as _;
    let mut s = String::new();
    let _ = write!(s, "name={:?};ver={:?};sa={:?};", f.filename(), f.version(), f.xml_standalone());
    let _ = write!(s, "model={:?};", f.model().map(|_| ()).map_err(|x| err_variant(&x)));
    let _ = write!(s, "dfs={};dfs1={};", f.elements_dfs().count(), f.elements_dfs_with_max_depth(1).count());
    let _ = write!(s, "ser={:?};", f.serialize().map(|t| t.len()).map_err(|x| err_variant(&x)));
    let (errs, mask) = f.check_version_compatibility(AutosarVersion::Autosar_4_0_1);
    let _ = write!(s, "compat={}/{mask:#x};", errs.len());
    let _ = write!(s, "dbg={};", format!("{f:?}").len());
    let w = f.downgrade();
    let _ = write!(s, "weak={};wdbg={};", w.upgrade().is_some(), format!("{w:?}").len());
    s
}

// ------------------------------------------------------------------------------------------------
// generation

#[derive(Clone)]
pub struct Profile {
    pub weights: Vec<(Kind, u32)>,
    /// percentage of receiver handles drawn from the stale pool
    pub stale_pct: u32,
    /// percentage of hostile argument choices
    pub hostile_pct: u32,
    /// prefer the primary model (index 0) with this percentage
    pub primary_pct: u32,
}

impl Profile {
    pub fn uniform() -> Profile {
        Profile {
            weights: ALL_KINDS.iter().map(|k| (*k, 10)).collect(),
            stale_pct: 5,
            hostile_pct: 15,
            primary_pct: 80,
        }
    }
    pub fn with(mut self, kind: Kind, w: u32) -> Profile {
        if let Some(e) = self.weights.iter_mut().find(|(k, _)| *k == kind) {
            e.1 = w;
        }
        self
    }
    pub fn with_all(mut self, kinds: &[Kind], w: u32) -> Profile {
        for k in kinds {
            self = self.with(*k, w);
        }
        self
    }
}

pub fn version_of(e: &Element) -> AutosarVersion {
    e.min_version().unwrap_or(AutosarVersion::LATEST)
}

impl World {
    fn hostile(&mut self, prof: &Profile) -> bool {
        self.rng.chance(prof.hostile_pct, 100)
    }

    fn pick_model(&mut self, prof: &Profile) -> usize {
        if self.models.len() <= 1 || self.rng.chance(prof.primary_pct, 100) {
            0
        } else {
            self.rng.below(self.models.len())
        }
    }

    /// a live element (pool index), possibly restricted by a predicate
    pub fn pick_live(&mut self, prof: &Profile, pred: &dyn Fn(&Element) -> bool) -> Option<usize> {
        let m = self.pick_model(prof);
        let cands: Vec<usize> = self.trees[m]
            .nodes
            .iter()
            .filter(|n| pred(&n.elem))
            .filter_map(|n| self.elem_ids.get(&n.elem).copied())
            .collect();
        self.rng.pick_opt(&cands).copied()
    }

    pub fn pick_stale(&mut self) -> Option<usize> {
        let n = self.elems.len();
        if n == 0 {
            return None;
        }
        // probe a few random pool entries
        for _ in 0..12 {
            let i = self.rng.below(n);
            if !self.is_live(i) {
                return Some(i);
            }
        }
        None
    }

    fn pick_receiver(&mut self, prof: &Profile, pred: &dyn Fn(&Element) -> bool) -> Option<usize> {
        if self.rng.chance(prof.stale_pct, 100) {
            if let Some(s) = self.pick_stale() {
                return Some(s);
            }
        }
        self.pick_live(prof, pred).or_else(|| self.pick_live(prof, &|_| true))
    }

    fn any_element_name(&mut self) -> ElementName {
        ELEMENT_NAME_LISTING[self.rng.below(ELEMENT_NAME_LISTING.len())].0
    }

    fn item_name(&mut self, prof: &Profile) -> String {
        if self.hostile(prof) {
            match self.rng.below(10) {
                0 => long_name(200),
                1 => long_name(128),
                _ => (*self.rng.pick(&HOSTILE_NAMES)).to_string(),
            }
        } else {
            let pool: &[&str] = if self.masks.no_cyclic_names {
                &["a", "b", "c1", "c2", "d", "ab", "B", "x_1", "y", "c18446744073709551616", "c99999999999999999999999"]
            } else {
                &ITEM_NAMES
            };
            (*self.rng.pick(pool)).to_string()
        }
    }

    fn position_for(&mut self, prof: &Profile, parent: &Element, name: ElementName) -> usize {
        let len = parent.content_item_count();
        let range = parent.calc_element_insert_range(name, version_of(parent)).ok();
        if self.hostile(prof) {
            let mut c = vec![0, len, len + 1, usize::MAX, len / 2];
            if let Some((lo, hi)) = range {
                c.push(hi + 1);
                c.push(lo.saturating_sub(1));
            }
            *self.rng.pick(&c)
        } else if let Some((lo, hi)) = range {
            self.rng.range(lo, hi)
        } else {
            self.rng.below(len + 1)
        }
    }

    /// (element name, is_named) of a sub element to create in parent
    fn sub_element_choice(&mut self, prof: &Profile, parent: &Element, want_named: Option<bool>) -> (ElementName, bool) {
        if self.hostile(prof) {
            return (self.any_element_name(), self.rng.chance(1, 2));
        }
        let valid = parent.list_valid_sub_elements();
        let mut cands: Vec<(ElementName, bool)> = valid
            .iter()
            .filter(|v| v.is_allowed && want_named.is_none_or(|w| v.is_named == w) && v.element_name != ElementName::ShortName)
            .map(|v| (v.element_name, v.is_named))
            .collect();
        if cands.is_empty() || self.rng.chance(1, 10) {
            cands = valid
                .iter()
                .filter(|v| want_named.is_none_or(|w| v.is_named == w))
                .map(|v| (v.element_name, v.is_named))
                .collect();
        }
        if cands.is_empty() {
            (self.any_element_name(), want_named.unwrap_or(false))
        } else {
            *self.rng.pick(&cands)
        }
    }

    fn compatible_parents(&self, m: usize, child: &Element) -> Vec<usize> {
        let name = child.element_name();
        let ctype = child.element_type();
        let strict = self.masks.no_type_changing_moves;
        self.trees[m]
            .nodes
            .iter()
            .filter(|n| n.elem.element_type().find_sub_element(name, u32::MAX).is_some_and(|(t, _)| !strict || t == ctype))
            .filter_map(|n| self.elem_ids.get(&n.elem).copied())
            .collect()
    }

    fn is_container_with_identifiables(&self, e: &Element) -> bool {
        !e.is_identifiable() && e.elements_dfs().skip(1).any(|(_, x)| x.is_identifiable())
    }

    fn text_value(&mut self, prof: &Profile) -> String {
        let pool = ["x", "hello world", "a&b", "1 < 2", "\"q\"", "it's", "ä€", "a  b", "0", "&amp;", "t\tt", "l1\nl2"];
        let mut s = (*self.rng.pick(&pool)).to_string();
        if !self.masks.no_edge_whitespace && self.hostile(prof) {
            s = format!(" {s} ");
        }
        s
    }

    fn gen_value(&mut self, prof: &Profile, e: &Element) -> CharacterData {
        let et = e.element_type();
        let version = version_of(e);
        let Some(spec) = et.chardata_spec() else {
            return CharacterData::String("x".into());
        };
        if et.is_ref() {
            // raw path text: existing, dangling, future
            let m = self.home(e).unwrap_or(0);
            let paths: Vec<String> = self.trees[m]
                .nodes
                .iter()
                .enumerate()
                .filter(|(_, n)| n.elem.is_identifiable())
                .map(|(i, _)| self.trees[m].oracle_path(i))
                .collect();
            return CharacterData::String(match self.rng.below(4) {
                0 | 1 if !paths.is_empty() => self.rng.pick(&paths).clone(),
                2 if !paths.is_empty() => {
                    // a path that may come into existence through a rename/move
                    let base = self.rng.pick(&paths).clone();
                    let parent = base.rsplit_once('/').map_or("", |(p, _)| p).to_string();
                    format!("{parent}/{}", self.rng.pick(&ITEM_NAMES))
                }
                _ => format!("/{}/{}", self.rng.pick(&ITEM_NAMES), self.rng.pick(&ITEM_NAMES)),
            });
        }
        if e.element_name() == ElementName::ShortName && !self.hostile(prof) {
            return CharacterData::String(self.item_name(prof));
        }
        if self.hostile(prof) {
            return invalid_value(&mut self.rng, spec, version);
        }
        match spec {
            CharacterDataSpec::String { .. } => CharacterData::String(self.text_value(prof)),
            _ => valid_value(&mut self.rng, spec, version).unwrap_or(CharacterData::String("x".into())),
        }
    }

    /// a small document that can be merged into / conflicts with the primary model
    fn gen_document(&mut self, prof: &Profile, m: usize) -> (String, bool) {
        let choice = self.rng.below(10);
        // serialisations of existing files (of any model in the pool): merges completely or overlaps
        if choice < 5 && !self.masks.no_unsorted_merge {
            let src = self.rng.below(self.models.len());
            let files: Vec<ArxmlFile> = self.models[src].files().collect();
            if let Some(f) = self.rng.pick_opt(&files) {
                if let Ok(text) = f.serialize() {
                    let conflicts = src != m;
                    if !(self.masks.no_failing_merge && conflicts) {
                        return (text, false);
                    }
                }
            }
        }
        if !self.masks.no_failing_merge && (choice == 1 || choice == 2) {
            // a partial view that diverges from the model below some identifiable element and also brings new content:
            // depending on the parent this merges or is rejected with InvalidFileMerge after the merge has started
            let files: Vec<ArxmlFile> = self.models[m].files().collect();
            if let Some(f) = self.rng.pick_opt(&files) {
                if let Ok(mut text) = f.serialize() {
                    let occurrences: Vec<usize> = text.match_indices("<SHORT-NAME>").map(|(i, _)| i).collect();
                    if occurrences.len() >= 2 {
                        let mut at = occurrences[self.rng.range(occurrences.len() / 2, occurrences.len() - 1)];
                        // prefer a named child of a non-splittable parent
                        if let Some(tr) = text.rfind("<TIMING-RESOURCE>") {
                            if self.rng.chance(3, 4) {
                                if let Some(sn) = text[tr..].find("<SHORT-NAME>") {
                                    at = tr + sn;
                                }
                            }
                        }
                        if let Some(end) = text[at..].find("</SHORT-NAME>") {
                            text.replace_range(at + 12..at + end, "zz9");
                        }
                        if let Some(p) = text.find("<AR-PACKAGES>") {
                            text.insert_str(p + 13, "<AR-PACKAGE><SHORT-NAME>zzNew</SHORT-NAME><ELEMENTS><SYSTEM><SHORT-NAME>zzSys</SHORT-NAME></SYSTEM></ELEMENTS></AR-PACKAGE>");
                        }
                        return (text, false);
                    }
                }
            }
        }
        let names: &[&str] = if self.masks.no_failing_merge { &["n1", "n2", "n3"] } else { &["n1", "n2", "a", "b"] };
        let p = *self.rng.pick(names);
        let q = *self.rng.pick(names);
        match choice {
            5 | 6 | 0 => (
                format!("{HDR}<AR-PACKAGES><AR-PACKAGE><SHORT-NAME>{p}</SHORT-NAME><ELEMENTS><SYSTEM><SHORT-NAME>{q}</SHORT-NAME></SYSTEM></ELEMENTS></AR-PACKAGE></AR-PACKAGES></AUTOSAR>"),
                false,
            ),
            7 => (
                format!("{HDR}<AR-PACKAGES><AR-PACKAGE><SHORT-NAME>{p}</SHORT-NAME><AR-PACKAGES><AR-PACKAGE><SHORT-NAME>{q}</SHORT-NAME></AR-PACKAGE></AR-PACKAGES></AR-PACKAGE></AR-PACKAGES></AUTOSAR>"),
                false,
            ),
            8 if self.hostile(prof) => (format!("{HDR}<AR-PACKAGES><AR-PACKAGE><SHORT-NAME>{p}</SHORT-NAME></AR-PACKAGE></AR-PACKAGES>"), true),
            9 if self.hostile(prof) => (format!("{HDR}<AR-PACKAGES><AR-PACKAGE><SHORT-NAME>{p}</SHORT-NAME><BOGUS/></AR-PACKAGE></AR-PACKAGES></AUTOSAR>"), true),
            _ => (format!("{HDR}<AR-PACKAGES><AR-PACKAGE><SHORT-NAME>{p}</SHORT-NAME></AR-PACKAGE></AR-PACKAGES></AUTOSAR>"), false),
        }
    }

    pub fn gen_op(&mut self, prof: &Profile) -> Op {
        if let Some(op) = self.pending.pop_front() {
            if let Op::LoadSelf { m, f, name, strict } = &op {
                // serialize now (a separate, successful call), so that only load_buffer itself is the judged operation
                if let Ok(text) = self.files[*f].serialize() {
                    return Op::LoadBuffer { m: *m, text, name: name.clone(), strict: *strict };
                }
            } else {
                return op;
            }
        }
        for _ in 0..50 {
            let weights: Vec<u32> = prof.weights.iter().map(|(_, w)| *w).collect();
            let kind = prof.weights[self.rng.weighted(&weights)].0;
            if let Some(op) = self.gen_kind(kind, prof) {
                return op;
            }
        }
        Op::ModelReaders { m: 0 }
    }

    pub fn gen_kind(&mut self, kind: Kind, prof: &Profile) -> Option<Op> {
        let can_have_children = |e: &Element| e.element_type().content_mode() != ContentMode::Characters;
        match kind {
            Kind::CreateSub | Kind::CreateSubAt | Kind::GetOrCreate => {
                let p = self.pick_receiver(prof, &can_have_children)?;
                let pe = self.elems[p].clone();
                let (name, _) = self.sub_element_choice(prof, &pe, Some(false));
                Some(match kind {
                    Kind::CreateSub => Op::CreateSub { p, name },
                    Kind::GetOrCreate => Op::GetOrCreate { p, name },
                    _ => {
                        let pos = self.position_for(prof, &pe, name);
                        Op::CreateSubAt { p, name, pos }
                    }
                })
            }
            Kind::CreateNamed | Kind::CreateNamedAt | Kind::GetOrCreateNamed => {
                let p = self.pick_receiver(prof, &|e| e.element_type().sub_element_spec_iter().any(|(_, _, _, named)| named != 0))?;
                let pe = self.elems[p].clone();
                let (name, _) = self.sub_element_choice(prof, &pe, Some(true));
                let item = self.item_name(prof);
                Some(match kind {
                    Kind::CreateNamed => Op::CreateNamed { p, name, item },
                    Kind::GetOrCreateNamed => Op::GetOrCreateNamed { p, name, item },
                    _ => {
                        let pos = self.position_for(prof, &pe, name);
                        Op::CreateNamedAt { p, name, item, pos }
                    }
                })
            }
            Kind::Copy | Kind::CopyAt | Kind::Move | Kind::MoveAt => {
                let is_move = matches!(kind, Kind::Move | Kind::MoveAt);
                let hostile = self.hostile(prof);
                let src = if hostile && self.rng.chance(1, 3) {
                    self.pick_stale().or_else(|| self.pick_live(prof, &|_| true))?
                } else {
                    self.pick_live(prof, &|e| e.element_name() != ElementName::Autosar && e.element_name() != ElementName::ShortName)?
                };
                let se = self.elems[src].clone();
                let dest_model = self.pick_model(prof);
                let p = if hostile {
                    self.pick_receiver(prof, &|_| true)?
                } else {
                    let c = self.compatible_parents(dest_model, &se);
                    *self.rng.pick_opt(&c)?
                };
                let pe = self.elems[p].clone();
                if self.masks.no_container_moves && self.is_container_with_identifiables(&se) {
                    // moving or copying a non-identifiable container changes the paths of its identifiable children without any
                    // uniqueness check (known finding of C04 with its own witness): only collision free container moves are generated
                    let prefix = {
                        let mut cur = Some(pe.clone());
                        let mut path = String::new();
                        while let Some(c) = cur {
                            if c.is_identifiable() {
                                path = c.path().unwrap_or_default();
                                break;
                            }
                            cur = c.parent().ok().flatten();
                        }
                        path
                    };
                    let Ok(dest_model_handle) = pe.model() else { return None };
                    let mut stack: Vec<Element> = se.sub_elements().collect();
                    let mut names: Vec<String> = Vec::new();
                    while let Some(x) = stack.pop() {
                        if x.is_identifiable() {
                            let name = x.item_name().unwrap_or_default();
                            if names.contains(&name) {
                                return None;
                            }
                            if dest_model_handle.get_element_by_path(&format!("{prefix}/{name}")).is_some_and(|found| !is_move || found != x) {
                                return None;
                            }
                            names.push(name);
                        } else {
                            stack.extend(x.sub_elements());
                        }
                    }
                }
                let _ = is_move;
                if self.masks.no_type_changing_moves && pe.element_type().find_sub_element(se.element_name(), u32::MAX).is_some_and(|(t, _)| t != se.element_type()) {
                    return None;
                }
                Some(match kind {
                    Kind::Copy => Op::Copy { p, src },
                    Kind::Move => Op::Move { p, src },
                    Kind::CopyAt => {
                        let pos = self.position_for(prof, &pe, se.element_name());
                        Op::CopyAt { p, src, pos }
                    }
                    _ => {
                        let pos = self.position_for(prof, &pe, se.element_name());
                        Op::MoveAt { p, src, pos }
                    }
                })
            }
            Kind::Remove => {
                let p = self.pick_receiver(prof, &|e| e.sub_elements().next().is_some())?;
                let pe = self.elems[p].clone();
                let children: Vec<Element> = pe.sub_elements().collect();
                let child = if self.hostile(prof) || children.is_empty() {
                    self.pick_live(prof, &|_| true)?
                } else {
                    let c = self.rng.pick(&children).clone();
                    self.intern(&c)
                };
                Some(Op::Remove { p, child })
            }
            Kind::RemoveKind => {
                let p = self.pick_receiver(prof, &|e| e.sub_elements().next().is_some())?;
                let pe = self.elems[p].clone();
                let children: Vec<Element> = pe.sub_elements().collect();
                let name = if self.hostile(prof) || children.is_empty() {
                    self.any_element_name()
                } else {
                    self.rng.pick(&children).element_name()
                };
                Some(Op::RemoveKind { p, name })
            }
            Kind::Rename => {
                let e = if self.hostile(prof) {
                    self.pick_receiver(prof, &|_| true)?
                } else {
                    self.pick_receiver(prof, &|e| e.is_identifiable())?
                };
                let item = self.item_name(prof);
                Some(Op::Rename { e, item })
            }
            Kind::SetRefTarget => {
                let e = if self.hostile(prof) {
                    self.pick_receiver(prof, &|_| true)?
                } else {
                    self.pick_receiver(prof, &|e| e.is_reference())?
                };
                let ee = self.elems[e].clone();
                let et = ee.element_type();
                let target = if self.hostile(prof) {
                    self.pick_live(prof, &|_| true)?
                } else {
                    self.pick_live(prof, &|t| t.is_identifiable() && et.reference_dest_value(&t.element_type()).is_some())
                        .or_else(|| self.pick_live(prof, &|t| t.is_identifiable()))?
                };
                Some(Op::SetRefTarget { e, target })
            }
            Kind::SetData => {
                let e = if self.hostile(prof) {
                    self.pick_receiver(prof, &|_| true)?
                } else {
                    self.pick_receiver(prof, &|e| e.element_type().chardata_spec().is_some())?
                };
                let ee = self.elems[e].clone();
                let value = self.gen_value(prof, &ee);
                Some(Op::SetData { e, value })
            }
            Kind::RemoveData => {
                let e = self.pick_receiver(prof, &|e| e.character_data().is_some())?;
                Some(Op::RemoveData { e })
            }
            Kind::InsertText => {
                let e = if self.hostile(prof) {
                    self.pick_receiver(prof, &|_| true)?
                } else {
                    self.pick_receiver(prof, &|e| e.element_type().content_mode() == ContentMode::Mixed)?
                };
                let n = self.elems[e].content_item_count();
                let pos = if self.hostile(prof) { *self.rng.pick(&[n + 1, usize::MAX, 0]) } else { self.rng.below(n + 1) };
                let text = self.text_value(prof);
                Some(Op::InsertText { e, text, pos })
            }
            Kind::RemoveText => {
                let e = self.pick_receiver(prof, &|e| e.element_type().content_mode() == ContentMode::Mixed && e.content_item_count() > 0)?;
                let n = self.elems[e].content_item_count();
                let pos = if self.hostile(prof) { *self.rng.pick(&[n, usize::MAX]) } else { self.rng.below(n.max(1)) };
                Some(Op::RemoveText { e, pos })
            }
            Kind::SetAttr | Kind::SetAttrStr | Kind::RemoveAttr => {
                let e = if self.hostile(prof) {
                    self.pick_receiver(prof, &|_| true)?
                } else {
                    self.pick_receiver(prof, &|e| e.element_type().attribute_spec_iter().next().is_some())?
                };
                let ee = self.elems[e].clone();
                if self.masks.no_root_attr_edit && ee.element_name() == ElementName::Autosar {
                    return None;
                }
                let specs: Vec<(AttributeName, &'static CharacterDataSpec, bool)> = ee.element_type().attribute_spec_iter().collect();
                let version = version_of(&ee);
                if specs.is_empty() || self.hostile(prof) {
                    let attr = ATTRIBUTE_NAME_LISTING[self.rng.below(ATTRIBUTE_NAME_LISTING.len())].0;
                    return Some(match kind {
                        Kind::SetAttr => Op::SetAttr { e, attr, value: CharacterData::String("x".into()) },
                        Kind::SetAttrStr => Op::SetAttrStr { e, attr, text: "x".into() },
                        _ => Op::RemoveAttr { e, attr },
                    });
                }
                let (attr, spec, _) = *self.rng.pick(&specs);
                let value = if self.hostile(prof) {
                    invalid_value(&mut self.rng, spec, version)
                } else {
                    match spec {
                        CharacterDataSpec::String { .. } => CharacterData::String(self.text_value(prof)),
                        _ => valid_value(&mut self.rng, spec, version).unwrap_or(CharacterData::String("x".into())),
                    }
                };
                Some(match kind {
                    Kind::SetAttr => Op::SetAttr { e, attr, value },
                    Kind::SetAttrStr => {
                        // text of a non-string attribute with blanks around it: the conversion must not accept (and store) what the
                        // value space does not contain
                        let mut text = value.to_string();
                        if !matches!(spec, CharacterDataSpec::String { .. }) && self.rng.chance(1, 5) {
                            text = match self.rng.below(4) {
                                0 => format!(" {text}"),
                                1 => format!("{text} "),
                                2 => format!("\t{text}\n"),
                                _ => format!("\u{a0}{text}"),
                            };
                        }
                        Op::SetAttrStr { e, attr, text }
                    }
                    _ => Op::RemoveAttr { e, attr },
                })
            }
            Kind::Sort => {
                let e = self.pick_receiver(prof, &|e| e.sub_elements().nth(1).is_some())?;
                Some(Op::Sort { e })
            }
            Kind::SortModel => Some(Op::SortModel { m: self.pick_model(prof) }),
            Kind::SetComment => {
                let e = self.pick_receiver(prof, &|_| true)?;
                let comment = match self.rng.below(5) {
                    0 => None,
                    1 => Some("a -- b".to_string()),
                    2 => Some(" spaced ".to_string()),
                    3 => Some("<x> & y".to_string()),
                    _ => Some("note".to_string()),
                };
                Some(Op::SetComment { e, comment })
            }
            Kind::AddToFile | Kind::RemoveFromFile => {
                if self.files.is_empty() {
                    return None;
                }
                let e = self.pick_receiver(prof, &|e| e.parent().ok().flatten().is_none_or(|p| p.element_type().splittable() != 0))?;
                let ee = self.elems[e].clone();
                if self.masks.no_root_remove_from_file && kind == Kind::RemoveFromFile && ee.element_name() == ElementName::Autosar {
                    return None;
                }
                if self.masks.no_shortname_membership && ee.element_name() == ElementName::ShortName {
                    return None;
                }
                let f = if self.hostile(prof) {
                    self.rng.below(self.files.len())
                } else {
                    let m = self.home(&ee).unwrap_or(0);
                    let fs: Vec<ArxmlFile> = self.models[m].files().collect();
                    let f = self.rng.pick_opt(&fs)?.clone();
                    self.intern_file(&f)
                };
                Some(if kind == Kind::AddToFile { Op::AddToFile { e, f } } else { Op::RemoveFromFile { e, f } })
            }
            Kind::CreateFile => {
                let m = self.pick_model(prof);
                if self.models[m].files().count() >= 4 {
                    return None;
                }
                let name = if self.hostile(prof) {
                    self.models[m].files().next().map_or("dup.arxml".to_string(), |f| file_label(&f))
                } else {
                    self.file_counter += 1;
                    format!("file{}.arxml", self.file_counter)
                };
                let existing: Vec<AutosarVersion> = self.models[m].files().map(|f| f.version()).collect();
                let version = if !existing.is_empty() && self.rng.chance(3, 4) {
                    existing[0]
                } else {
                    *self.rng.pick(&ALL_VERSIONS)
                };
                Some(Op::CreateFile { m, name, version })
            }
            Kind::LoadBuffer => {
                let m = self.pick_model(prof);
                if self.models[m].files().count() >= 4 {
                    return None;
                }
                let (text, _broken) = self.gen_document(prof, m);
                let name = if self.hostile(prof) && self.rng.chance(1, 3) {
                    self.models[m].files().next().map_or("dup.arxml".to_string(), |f| file_label(&f))
                } else {
                    self.file_counter += 1;
                    format!("load{}.arxml", self.file_counter)
                };
                let strict = self.rng.chance(1, 2);
                if self.masks.no_unsorted_merge && self.models[m].files().count() > 0 {
                    // the merge pairs siblings of different kinds by their specification index and duplicates shared elements when the
                    // model lists them in another order (known finding of C09, witnessed there): sort first, as a separate call
                    self.pending.push_back(Op::LoadBuffer { m, text, name, strict });
                    return Some(Op::SortModel { m });
                }
                Some(Op::LoadBuffer { m, text, name, strict })
            }
            Kind::EnsureChain => None,
            Kind::MergeConflict => {
                // prepare <pkg>/ELEMENTS/<K k>/<C c1> through the API, then load a partial view with <C c2> instead plus a new package:
                // for a non-splittable K the load is rejected with InvalidFileMerge after the new package has been imported
                let m = self.pick_model(prof);
                let files: Vec<ArxmlFile> = self.models[m].files().collect();
                if files.is_empty() || files.len() >= 4 {
                    return None;
                }
                let version = files.iter().map(|f| f.version()).min()?;
                let cands = conflict_candidates();
                let (k, c) = *self.rng.pick_opt(cands)?;
                let pkg = *self.rng.pick(&["mc", "a", "b"]);
                let kname = *self.rng.pick(&["k", "a", "a1"]);
                let chain = vec![
                    (ElementName::ArPackages, None),
                    (ElementName::ArPackage, Some(pkg.to_string())),
                    (ElementName::Elements, None),
                    (k, Some(kname.to_string())),
                    (c, Some("c1".to_string())),
                ];
                let doc = format!(
                    "{}<AR-PACKAGES><AR-PACKAGE><SHORT-NAME>zzNew{}</SHORT-NAME><ELEMENTS><SYSTEM><SHORT-NAME>zzSys</SHORT-NAME></SYSTEM></ELEMENTS></AR-PACKAGE><AR-PACKAGE><SHORT-NAME>{pkg}</SHORT-NAME><ELEMENTS><ECU-INSTANCE><SHORT-NAME>zzEcu</SHORT-NAME></ECU-INSTANCE><{k}><SHORT-NAME>{kname}</SHORT-NAME><{c}><SHORT-NAME>c2</SHORT-NAME></{c}></{k}></ELEMENTS></AR-PACKAGE></AR-PACKAGES></AUTOSAR>",
                    HDR.replace("AUTOSAR_00050.xsd", version.filename()),
                    self.file_counter,
                    k = k.to_str(),
                    c = c.to_str()
                );
                self.file_counter += 1;
                self.pending.push_back(Op::LoadBuffer { m, text: doc, name: format!("conflict{}.arxml", self.file_counter), strict: self.rng.chance(1, 2) });
                Some(Op::EnsureChain { m, chain })
            }
            Kind::LoadSelf => {
                let m = self.pick_model(prof);
                if self.models[m].files().count() >= 4 {
                    return None;
                }
                // non-identifiable siblings are merged by position; a partial view of the model is merged wrongly when such
                // siblings are distributed over files (known finding of C09, witnessed there): only load complete views here
                if self.masks.no_unsorted_merge && self.trees[m].nodes.iter().skip(1).any(|n| matches!(n.elem.file_membership(), Ok((true, _)))) {
                    return None;
                }
                let fs: Vec<ArxmlFile> = self.models[m].files().collect();
                let f = self.rng.pick_opt(&fs)?.clone();
                let f = self.intern_file(&f);
                self.file_counter += 1;
                // the merge assumes that both sides list elements of different kinds in the same (specification) order: sort first
                self.pending.push_back(Op::LoadSelf { m, f, name: format!("self{}.arxml", self.file_counter), strict: self.rng.chance(1, 2) });
                Some(Op::SortModel { m })
            }
            Kind::RemoveFile => {
                if self.files.is_empty() {
                    return None;
                }
                let m = self.pick_model(prof);
                let f = if self.hostile(prof) {
                    self.rng.below(self.files.len())
                } else {
                    let fs: Vec<ArxmlFile> = self.models[m].files().collect();
                    let f = self.rng.pick_opt(&fs)?.clone();
                    self.intern_file(&f)
                };
                Some(Op::RemoveFile { m, f })
            }
            Kind::Duplicate => {
                let m = self.pick_model(prof);
                if self.masks.no_mixed_version_duplicate {
                    let versions: Vec<AutosarVersion> = self.models[m].files().map(|f| f.version()).collect();
                    if versions.windows(2).any(|w| w[0] != w[1]) {
                        return None;
                    }
                }
                Some(Op::Duplicate { m })
            }
            Kind::SetVersion => {
                if self.files.is_empty() {
                    return None;
                }
                let f = self.rng.below(self.files.len());
                let version = *self.rng.pick(&ALL_VERSIONS);
                Some(Op::SetVersion { f, version })
            }
            Kind::SetFilename => {
                if self.files.is_empty() {
                    return None;
                }
                let f = self.rng.below(self.files.len());
                let name = if self.hostile(prof) {
                    let g = self.rng.below(self.files.len());
                    file_label(&self.files[g])
                } else {
                    self.file_counter += 1;
                    format!("renamed{}.arxml", self.file_counter)
                };
                Some(Op::SetFilename { f, name })
            }
            Kind::Readers => Some(Op::Readers { e: self.pick_receiver(prof, &|_| true)? }),
            Kind::ModelReaders => Some(Op::ModelReaders { m: self.pick_model(prof) }),
            Kind::FileReaders => {
                if self.files.is_empty() {
                    return None;
                }
                Some(Op::FileReaders { f: self.rng.below(self.files.len()) })
            }
            Kind::Cmp => {
                let a = self.pick_receiver(prof, &|_| true)?;
                let b = self.pick_receiver(prof, &|_| true)?;
                Some(Op::Cmp { a, b })
            }
        }
    }
}

// ------------------------------------------------------------------------------------------------
// initial models

/// a small hand-shaped model with packages, a system with references, BSW values and signals
/// a multi-file model that comes into being by loading partial views (2-3 files): the same packages carry different kinds of
/// children in different files (LONG-NAME / CATEGORY / ELEMENTS / AR-PACKAGES), shared and file-specific elements
impl World {
    /// queue a duplicate() of the model added last (it runs as the first operations of the history, after the growth steps)
    pub fn pending_duplicate_of_last_model(&mut self) {
        let m = self.models.len() - 1;
        self.pending.push_back(Op::Duplicate { m });
    }
}

pub fn seed_model_loaded(w: &mut World, version: AutosarVersion) -> Option<usize> {
    let hdr = HDR.replace("AUTOSAR_00050.xsd", version.filename());
    let parts: [[&str; 3]; 3] = [
        // package p1: what each file knows about it
        ["<LONG-NAME><L-4 L=\"EN\">first</L-4></LONG-NAME><ELEMENTS><SYSTEM><SHORT-NAME>s1</SHORT-NAME></SYSTEM></ELEMENTS>", "<AR-PACKAGES><AR-PACKAGE><SHORT-NAME>sub</SHORT-NAME></AR-PACKAGE></AR-PACKAGES>", "<CATEGORY>cat</CATEGORY>"],
        // package shared
        // (the same elements in more than one file: an identifiable element inside mixed content, a SYSTEM whose first reference
        // is repeated by the second file - merged away, which leaves a dead entry in the referrer list - followed by a second one;
        // the inline elements of the shared mixed content differ between the files: each belongs to its own file only)
        [
            "<DESC><L-2 L=\"EN\">see <XREF-TARGET><SHORT-NAME>anchor</SHORT-NAME></XREF-TARGET> there<SUB>a</SUB></L-2></DESC><ELEMENTS><ECU-INSTANCE><SHORT-NAME>e</SHORT-NAME></ECU-INSTANCE><SYSTEM><SHORT-NAME>sys</SHORT-NAME><FIBEX-ELEMENTS><FIBEX-ELEMENT-REF-CONDITIONAL><FIBEX-ELEMENT-REF DEST=\"ECU-INSTANCE\">/shared/e</FIBEX-ELEMENT-REF></FIBEX-ELEMENT-REF-CONDITIONAL></FIBEX-ELEMENTS></SYSTEM></ELEMENTS>",
            "<DESC><L-2 L=\"EN\">see <XREF-TARGET><SHORT-NAME>anchor</SHORT-NAME></XREF-TARGET> there<SUP>b</SUP></L-2></DESC><ELEMENTS><ECU-INSTANCE><SHORT-NAME>e</SHORT-NAME></ECU-INSTANCE><I-SIGNAL><SHORT-NAME>i</SHORT-NAME></I-SIGNAL><SYSTEM><SHORT-NAME>sys</SHORT-NAME><FIBEX-ELEMENTS><FIBEX-ELEMENT-REF-CONDITIONAL><FIBEX-ELEMENT-REF DEST=\"ECU-INSTANCE\">/shared/e</FIBEX-ELEMENT-REF></FIBEX-ELEMENT-REF-CONDITIONAL><FIBEX-ELEMENT-REF-CONDITIONAL><FIBEX-ELEMENT-REF DEST=\"ECU-INSTANCE\">/shared/e</FIBEX-ELEMENT-REF></FIBEX-ELEMENT-REF-CONDITIONAL></FIBEX-ELEMENTS></SYSTEM></ELEMENTS>",
            "",
        ],
        // package only in some files
        ["", "<ELEMENTS><I-SIGNAL><SHORT-NAME>only</SHORT-NAME></I-SIGNAL></ELEMENTS>", "<ELEMENTS><I-SIGNAL><SHORT-NAME>only</SHORT-NAME></I-SIGNAL><I-SIGNAL><SHORT-NAME>third</SHORT-NAME></I-SIGNAL></ELEMENTS>"],
    ];
    let model = AutosarModel::new();
    let nfiles = w.rng.range(2, 3);
    let mut order: Vec<usize> = (0..nfiles).collect();
    w.rng.shuffle(&mut order);
    for f in order {
        let mut doc = format!("{hdr}<AR-PACKAGES>");
        for (pi, pname) in ["p1", "shared", "some"].iter().enumerate() {
            let body = parts[pi][f];
            if pi == 2 && body.is_empty() {
                continue;
            }
            doc.push_str(&format!("<AR-PACKAGE><SHORT-NAME>{pname}</SHORT-NAME>{body}</AR-PACKAGE>"));
        }
        doc.push_str("</AR-PACKAGES></AUTOSAR>");
        w.file_counter += 1;
        match model.load_buffer(doc.as_bytes(), format!("view{}.arxml", w.file_counter), true) {
            Ok((file, _)) => {
                w.intern_file(&file);
            }
            Err(_) => return None,
        }
    }
    Some(w.add_model(model))
}

pub fn seed_model_small(w: &mut World, files: usize, versions: &[AutosarVersion]) -> usize {
    let model = AutosarModel::new();
    for i in 0..files.max(1) {
        let v = versions[i % versions.len()];
        w.file_counter += 1;
        let f = model.create_file(format!("seed{}.arxml", w.file_counter), v).unwrap();
        w.intern_file(&f);
    }
    let root = model.root_element();
    let pkgs = root.create_sub_element(ElementName::ArPackages).unwrap();
    let mut targets: Vec<Element> = Vec::new();
    let mut all_pkgs = Vec::new();
    for pname in ["a", "a1", "b"] {
        let pkg = pkgs.create_named_sub_element(ElementName::ArPackage, pname).unwrap();
        all_pkgs.push(pkg.clone());
        if w.rng.chance(2, 3) {
            let elements = pkg.create_sub_element(ElementName::Elements).unwrap();
            for n in ["a", "a10"] {
                if w.rng.chance(1, 2) {
                    if let Ok(sig) = elements.create_named_sub_element(ElementName::ISignal, n) {
                        targets.push(sig);
                    }
                }
            }
            if w.rng.chance(1, 2) {
                if let Ok(sys) = elements.create_named_sub_element(ElementName::System, "b") {
                    targets.push(sys);
                }
            }
            if w.rng.chance(1, 2) {
                if let Ok(e) = elements.create_named_sub_element(ElementName::EcuInstance, "a1b") {
                    targets.push(e);
                }
            }
            if w.rng.chance(1, 3) {
                if let Ok(st) = elements.create_named_sub_element(ElementName::SystemTiming, "ab") {
                    let _ = st.create_named_sub_element(ElementName::TimingResource, "a");
                    let _ = st.create_named_sub_element(ElementName::TimingResource, "b");
                }
            }
        }
        if w.rng.chance(1, 2) {
            if let Ok(sub) = pkg.create_sub_element(ElementName::ArPackages) {
                let _ = sub.create_named_sub_element(ElementName::ArPackage, "a");
                if let Ok(p2) = sub.create_named_sub_element(ElementName::ArPackage, "a1") {
                    all_pkgs.push(p2);
                }
            }
        }
    }
    // references
    let systems: Vec<Element> = targets.iter().filter(|t| t.element_name() == ElementName::System).cloned().collect();
    for sys in &systems {
        if let Ok(fx) = sys.create_sub_element(ElementName::FibexElements) {
            for t in targets.iter().filter(|t| t.element_name() != ElementName::System) {
                if w.rng.chance(2, 3) {
                    if let Ok(cond) = fx.create_sub_element(ElementName::FibexElementRefConditional) {
                        if let Ok(r) = cond.create_sub_element(ElementName::FibexElementRef) {
                            let _ = r.set_reference_target(t);
                        }
                    }
                }
            }
            // a dangling reference
            if w.rng.chance(1, 2) {
                if let Ok(cond) = fx.create_sub_element(ElementName::FibexElementRefConditional) {
                    if let Ok(r) = cond.create_sub_element(ElementName::FibexElementRef) {
                        let _ = r.set_attribute(AttributeName::Dest, CharacterData::Enum(EnumItem::ISignal));
                        let _ = r.set_character_data(format!("/a/{}", w.rng.pick(&ITEM_NAMES)));
                    }
                }
            }
        }
    }
    // BSW values keyed by definition refs
    if w.rng.chance(1, 2) {
        if let Some(pkg) = all_pkgs.first() {
            if let Ok(elements) = pkg.get_or_create_sub_element(ElementName::Elements) {
                if let Ok(mcv) = elements.create_named_sub_element(ElementName::EcucModuleConfigurationValues, "ab") {
                    if let Ok(conts) = mcv.create_sub_element(ElementName::Containers) {
                        for cn in ["a", "b"] {
                            if let Ok(c) = conts.create_named_sub_element(ElementName::EcucContainerValue, cn) {
                                if let Ok(d) = c.create_sub_element(ElementName::DefinitionRef) {
                                    let _ = d.set_attribute(AttributeName::Dest, CharacterData::Enum(EnumItem::EcucParamConfContainerDef));
                                    let _ = d.set_character_data(format!("/defs/{cn}"));
                                }
                                if let Ok(pv) = c.create_sub_element(ElementName::ParameterValues) {
                                    for k in 0..2 {
                                        if let Ok(v) = pv.create_sub_element(ElementName::EcucNumericalParamValue) {
                                            if let Ok(d) = v.create_sub_element(ElementName::DefinitionRef) {
                                                let _ = d.set_attribute(AttributeName::Dest, CharacterData::Enum(EnumItem::EcucIntegerParamDef));
                                                let _ = d.set_character_data(format!("/defs/{cn}/p{k}"));
                                            }
                                            if let Ok(val) = v.create_sub_element(ElementName::Value) {
                                                let _ = val.set_character_data(format!("{}", k + 1));
                                            }
                                        }
                                    }
                                }
                            }
                        }
                    }
                }
            }
        }
    }
    // distribute packages over files
    let fs: Vec<ArxmlFile> = model.files().collect();
    if fs.len() > 1 {
        for pkg in &all_pkgs {
            if pkg.parent().ok().flatten().is_some_and(|p| p.element_type().splittable() != 0) && w.rng.chance(1, 2) {
                let keep = w.rng.pick(&fs).clone();
                for f in &fs {
                    if *f != keep {
                        let _ = pkg.remove_from_file(f);
                    }
                }
            }
        }
    }
    let idx = w.add_model(model);
    w.refresh();
    idx
}



/// (K, C): element kinds K below ELEMENTS that are not splittable and have a named direct child kind C
pub fn conflict_candidates() -> &'static Vec<(ElementName, ElementName)> {
    static CANDS: std::sync::OnceLock<Vec<(ElementName, ElementName)>> = std::sync::OnceLock::new();
    CANDS.get_or_init(|| {
        let mut out = Vec::new();
        let model = AutosarModel::new();
        if model.create_file("scratch.arxml", AutosarVersion::Autosar_4_3_0).is_err() {
            return out;
        }
        let Ok(elements) = model
            .root_element()
            .create_sub_element(ElementName::ArPackages)
            .and_then(|p| p.create_named_sub_element(ElementName::ArPackage, "p"))
            .and_then(|p| p.create_sub_element(ElementName::Elements))
        else {
            return out;
        };
        let kinds: Vec<ElementName> = elements.list_valid_sub_elements().iter().filter(|v| v.is_named).map(|v| v.element_name).collect();
        for (i, k) in kinds.iter().enumerate() {
            if let Ok(ke) = elements.create_named_sub_element(*k, &format!("k{i}")) {
                let et = ke.element_type();
                if et.splittable() == 0 {
                    for v in ke.list_valid_sub_elements() {
                        if v.is_named && v.is_allowed && ke.create_named_sub_element(v.element_name, "c").is_ok() {
                            out.push((*k, v.element_name));
                        }
                    }
                }
            }
        }
        out
    })
}
