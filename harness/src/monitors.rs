//! structural invariant monitors (M_tree, M_index, M_refs, M_files); each returns structured violations

use crate::walk::*;
use autosar_data::*;
use std::collections::{BTreeMap, BTreeSet, HashMap, HashSet};

#[derive(Clone, Debug)]
pub struct Viol {
    pub rule: String,
    /// stable predicate part of the signature
    pub pred: String,
    pub detail: String,
}

fn v(rule: &str, pred: &str, detail: String) -> Viol {
    Viol {
        rule: rule.to_string(),
        pred: pred.to_string(),
        detail,
    }
}

fn ename(e: &Element) -> &'static str {
    e.element_name().to_str()
}

/// counts of what a monitor evaluation inspected (for coverage floors)
#[derive(Default, Clone, Copy)]
pub struct Seen {
    pub elements: u64,
    pub identifiables: u64,
    pub references: u64,
    pub restricted: u64,
    pub files: u64,
}

// ------------------------------------------------------------------------------------------------
// M_tree (C03)

pub fn m_tree(model: &AutosarModel, t: &Tree, deep: bool) -> Vec<Viol> {
    let mut out = Vec::new();
    if !t.duplicates.is_empty() {
        out.push(v(
            "tree/element-listed-twice",
            "",
            format!("element object {} is reachable twice from the root", ename(&t.duplicates[0])),
        ));
        return out;
    }
    for (i, n) in t.nodes.iter().enumerate() {
        let e = &n.elem;
        match n.parent {
            None => match e.parent() {
                Ok(None) => {}
                other => out.push(v("tree/root-parent", "", format!("root.parent() = {:?}", other.map(|p| p.map(|p| ename(&p))).map_err(|x| x.to_string())))),
            },
            Some(p) => {
                let pe = &t.nodes[p].elem;
                match e.parent() {
                    Ok(Some(x)) if x == *pe => {}
                    other => out.push(v(
                        "tree/parent-mismatch",
                        "",
                        format!(
                            "{} at {} is listed by {} but parent() = {:?}",
                            ename(e),
                            t.pos_path(i),
                            ename(pe),
                            other.map(|p| p.map(|p| ename(&p))).map_err(|x| x.to_string())
                        ),
                    )),
                }
                if e.position() != Some(n.pos) {
                    out.push(v("tree/position-mismatch", "", format!("{} at {}: position() = {:?}, expected {}", ename(e), t.pos_path(i), e.position(), n.pos)));
                }
                if pe.get_sub_element_at(n.pos).as_ref() != Some(e) {
                    out.push(v("tree/get_sub_element_at", "", format!("{}.get_sub_element_at({}) is not the listed child", ename(pe), n.pos)));
                }
            }
        }
        match e.model() {
            Ok(m) if m == *model => {}
            other => out.push(v(
                "tree/model-mismatch",
                "",
                format!("{} at {}: model() = {:?}", ename(e), t.pos_path(i), other.map(|_| "another model").map_err(|x| x.to_string())),
            )),
        }
        // sub_elements() equals the element items of content()
        let subs: Vec<Element> = e.sub_elements().collect();
        let expect: Vec<Element> = n.children.iter().map(|c| t.nodes[*c].elem.clone()).collect();
        if subs != expect {
            out.push(v("tree/sub_elements-differs", "", format!("{} at {}: sub_elements() yields {} items, content() has {} element items", ename(e), t.pos_path(i), subs.len(), expect.len())));
        }
        if e.content_item_count() != n.items.len() {
            out.push(v("tree/content_item_count", "", format!("{} at {}", ename(e), t.pos_path(i))));
        }
        if out.len() > 10 {
            return out;
        }
    }
    // depth first iterators
    let expect: Vec<(usize, Element)> = t.nodes.iter().map(|n| (n.depth, n.elem.clone())).collect();
    let got: Vec<(usize, Element)> = model.elements_dfs().collect();
    if got != expect {
        out.push(v("tree/model-dfs-differs", "", format!("AutosarModel::elements_dfs yields {} items, the tree has {}", got.len(), expect.len())));
    }
    for d in [1usize, 2, 3] {
        let expect_d: Vec<(usize, Element)> = expect.iter().filter(|(dep, _)| *dep <= d).cloned().collect();
        let got_d: Vec<(usize, Element)> = model.elements_dfs_with_max_depth(d).collect();
        if got_d != expect_d {
            out.push(v("tree/model-dfs-max-depth-differs", &format!("d={d}"), format!("elements_dfs_with_max_depth({d}) yields {} items, expected {}", got_d.len(), expect_d.len())));
        }
    }
    if deep {
        // next_sibling(): after an element was returned, skip its subtree; expected from the preorder listing
        let n = t.nodes.len();
        let sub_end = |i: usize| -> usize {
            let mut j = i + 1;
            while j < n && t.nodes[j].depth > t.nodes[i].depth {
                j += 1;
            }
            j
        };
        for (salt, maxd) in [(1u64, 0usize), (2, 0), (3, 3)] {
            let listing: Vec<usize> = (0..n).filter(|i| maxd == 0 || t.nodes[*i].depth <= maxd).collect();
            let mut expect_ns: Vec<(usize, Element)> = Vec::new();
            let mut flags: Vec<bool> = Vec::new();
            let mut k = 0;
            while k < listing.len() {
                let i = listing[k];
                expect_ns.push((t.nodes[i].depth, t.nodes[i].elem.clone()));
                let skip = i > 0 && (i as u64).wrapping_mul(0x9E37_79B9_7F4A_7C15).wrapping_add(salt.wrapping_mul(0xD1B5_4A32_D192_ED03)).rotate_left(23) % 3 == 0;
                flags.push(skip);
                if skip {
                    let end = sub_end(i);
                    while k < listing.len() && listing[k] < end {
                        k += 1;
                    }
                } else {
                    k += 1;
                }
            }
            let mut it = if maxd == 0 { model.elements_dfs() } else { model.elements_dfs_with_max_depth(maxd) };
            let mut got_ns: Vec<(usize, Element)> = Vec::new();
            let mut cur = it.next();
            while let Some(item) = cur {
                got_ns.push(item);
                if got_ns.len() > n + 1 {
                    break;
                }
                cur = if flags.get(got_ns.len() - 1).copied().unwrap_or(false) { it.next_sibling() } else { it.next() };
            }
            if got_ns != expect_ns {
                let kk = got_ns.iter().zip(expect_ns.iter()).position(|(a, b)| a != b).unwrap_or(got_ns.len().min(expect_ns.len()));
                out.push(v(
                    "tree/dfs-next_sibling-differs",
                    if maxd == 0 { "" } else { "max-depth" },
                    format!("elements_dfs (max depth {maxd}) driven with next_sibling() after selected elements yields {} items, expected {}; first difference at item {kk}", got_ns.len(), expect_ns.len()),
                ));
            }
        }
        // element scoped iterators on a few inner nodes
        let step = (t.nodes.len() / 5).max(1);
        for i in (0..t.nodes.len()).step_by(step) {
            let base = t.nodes[i].depth;
            let expect_sub: Vec<(usize, Element)> = t.subtree(i).into_iter().map(|k| (t.nodes[k].depth - base, t.nodes[k].elem.clone())).collect();
            let got_sub: Vec<(usize, Element)> = t.nodes[i].elem.elements_dfs().collect();
            if got_sub != expect_sub {
                out.push(v("tree/element-dfs-differs", "", format!("{}.elements_dfs() at {} yields {} items, expected {}", ename(&t.nodes[i].elem), t.pos_path(i), got_sub.len(), expect_sub.len())));
            }
            let expect_2: Vec<(usize, Element)> = expect_sub.iter().filter(|(d, _)| *d <= 2).cloned().collect();
            let got_2: Vec<(usize, Element)> = t.nodes[i].elem.elements_dfs_with_max_depth(2).collect();
            if got_2 != expect_2 {
                out.push(v("tree/element-dfs-max-depth-differs", "", format!("{}.elements_dfs_with_max_depth(2) at {}", ename(&t.nodes[i].elem), t.pos_path(i))));
            }
        }
        // file scoped iterators
        let eff = effective_files(t, model);
        for f in model.files() {
            let label = file_label(&f);
            let expect_f: Vec<(usize, Element)> = t.nodes.iter().enumerate().filter(|(i, _)| eff[*i].contains(&label)).map(|(_, n)| (n.depth, n.elem.clone())).collect();
            let got_f: Vec<(usize, Element)> = f.elements_dfs().collect();
            if got_f != expect_f {
                let k = got_f.iter().zip(expect_f.iter()).position(|(a, b)| a != b).unwrap_or(got_f.len().min(expect_f.len()));
                let show = |x: Option<&(usize, Element)>| x.map(|(d, e)| format!("{}@{} depth {d} local={:?}", ename(e), t.pos_path_of(e).unwrap_or_default(), local_files(e, &t.files)));
                out.push(v("tree/file-dfs-differs", "", format!("ArxmlFile({label})::elements_dfs yields {} items, expected {}; first difference at item {k}: iterator {:?}, expected {:?}", got_f.len(), expect_f.len(), show(got_f.get(k)), show(expect_f.get(k)))));
            }
            let expect_f1: Vec<(usize, Element)> = expect_f.iter().filter(|(d, _)| *d <= 2).cloned().collect();
            let got_f1: Vec<(usize, Element)> = f.elements_dfs_with_max_depth(2).collect();
            if got_f1 != expect_f1 {
                out.push(v("tree/file-dfs-max-depth-differs", "", format!("ArxmlFile({label})::elements_dfs_with_max_depth(2)")));
            }
        }
    }
    out
}

// ------------------------------------------------------------------------------------------------
// M_index (C04)

pub struct ExpectedIndex {
    pub map: BTreeMap<String, Vec<usize>>,
}

pub fn expected_index(t: &Tree) -> ExpectedIndex {
    let mut map: BTreeMap<String, Vec<usize>> = BTreeMap::new();
    for (i, n) in t.nodes.iter().enumerate() {
        if n.elem.is_identifiable() {
            map.entry(t.oracle_path(i)).or_default().push(i);
        }
    }
    ExpectedIndex { map }
}

pub fn m_index(model: &AutosarModel, t: &Tree, probes: &[String], seen: &mut Seen) -> Vec<Viol> {
    let mut out = Vec::new();
    let exp = expected_index(t);
    seen.identifiables += exp.map.len() as u64;
    for (path, nodes) in &exp.map {
        if nodes.len() > 1 {
            let kinds: Vec<String> = nodes.iter().map(|i| format!("{}@{}", ename(&t.nodes[*i].elem), t.pos_path(*i))).collect();
            let same_parent = nodes.windows(2).all(|w| t.nodes[w[0]].parent == t.nodes[w[1]].parent);
            out.push(v(
                "index/duplicate-path",
                if same_parent { "siblings" } else { "different-parents" },
                format!("{} elements have the path {path}: {kinds:?}", nodes.len()),
            ));
            continue;
        }
        let e = &t.nodes[nodes[0]].elem;
        match model.get_element_by_path(path) {
            Some(x) if x == *e => {}
            Some(x) => out.push(v("index/wrong-element", "", format!("get_element_by_path({path}) returns a different element ({}, in tree: {})", ename(&x), t.contains(&x)))),
            None => out.push(v("index/missing", "", format!("get_element_by_path({path}) = None but {} at {} has that path", ename(e), t.pos_path(nodes[0])))),
        }
        match e.path() {
            Ok(p) if p == *path => {}
            other => out.push(v("index/path-differs", "", format!("{} at {}: path() = {:?}, expected {path}", ename(e), t.pos_path(nodes[0]), other.map_err(|x| x.to_string())))),
        }
        if out.len() > 12 {
            return out;
        }
    }
    // enumeration lists each expected pair exactly once and nothing else
    let mut listed: HashMap<String, usize> = HashMap::new();
    for (path, weak) in model.identifiable_elements() {
        *listed.entry(path.clone()).or_insert(0) += 1;
        match exp.map.get(&path) {
            Some(nodes) => {
                if nodes.len() == 1 && weak.upgrade().as_ref() != Some(&t.nodes[nodes[0]].elem) {
                    out.push(v("index/enumeration-wrong-element", "", format!("identifiable_elements lists {path} with a different element")));
                }
            }
            None => {
                let what = match weak.upgrade() {
                    None => "dead",
                    Some(e) if t.contains(&e) => "live-other-path",
                    Some(_) => "outside-tree",
                };
                out.push(v("index/stale-entry", what, format!("identifiable_elements lists {path} ({what}) but no identifiable element of the model has that path")));
            }
        }
    }
    for (path, n) in &listed {
        if *n > 1 {
            out.push(v("index/enumeration-duplicate", "", format!("identifiable_elements lists {path} {n} times")));
        }
    }
    for path in exp.map.keys() {
        if !listed.contains_key(path) {
            out.push(v("index/enumeration-missing", "", format!("identifiable_elements does not list {path}")));
        }
    }
    // negative probes
    let mut neg: Vec<String> = probes.to_vec();
    for path in exp.map.keys().take(12) {
        neg.push(format!("{path}/"));
        neg.push(format!("{path}0"));
        neg.push(path.trim_start_matches('/').to_string());
        if path.len() > 1 {
            neg.push(path[..path.len() - 1].to_string());
        }
        neg.push(path.to_uppercase());
    }
    neg.push(String::new());
    neg.push("/".into());
    for k in neg {
        if !exp.map.contains_key(&k) {
            if let Some(x) = model.get_element_by_path(&k) {
                out.push(v("index/lookup-of-absent-path", if t.contains(&x) { "live" } else { "outside-tree" }, format!("get_element_by_path({k:?}) returns {} although no identifiable element has that path", ename(&x))));
            }
        }
    }
    out
}

// ------------------------------------------------------------------------------------------------
// M_refs (C05)

pub fn ref_text(e: &Element) -> Option<String> {
    if e.is_reference() {
        if let Some(CharacterData::String(s)) = e.character_data() {
            return Some(s);
        }
    }
    None
}

pub fn m_refs(model: &AutosarModel, t: &Tree, seen: &mut Seen) -> Vec<Viol> {
    let mut out = Vec::new();
    // expected: text -> set of node indices
    let mut expected: BTreeMap<String, Vec<usize>> = BTreeMap::new();
    for (i, n) in t.nodes.iter().enumerate() {
        if let Some(text) = ref_text(&n.elem) {
            expected.entry(text).or_default().push(i);
        }
    }
    seen.references += expected.values().map(|v| v.len() as u64).sum::<u64>();
    let hook: BTreeMap<String, Vec<WeakElement>> = model.verif_reference_origins().into_iter().collect();
    let keys: BTreeSet<&String> = hook.keys().chain(expected.keys()).collect();
    for key in keys {
        let live: Vec<Element> = hook.get(key).map(|l| l.iter().filter_map(WeakElement::upgrade).collect()).unwrap_or_default();
        let exp_nodes: &[usize] = expected.get(key).map_or(&[], |x| x.as_slice());
        let exp_set: HashSet<&Element> = exp_nodes.iter().map(|i| &t.nodes[*i].elem).collect();
        let mut counts: HashMap<&Element, usize> = HashMap::new();
        for e in &live {
            *counts.entry(e).or_insert(0) += 1;
        }
        for (e, c) in &counts {
            if !exp_set.contains(*e) {
                let what = if !t.contains(e) {
                    "not-in-model"
                } else if ref_text(e).is_some() {
                    "text-differs"
                } else {
                    "no-reference-text"
                };
                out.push(v("refs/stale-referrer", what, format!("referrer list of {key} contains {} ({what}; its text is {:?})", ename(e), ref_text(e))));
            } else if *c > 1 {
                out.push(v("refs/referrer-listed-twice", "", format!("referrer list of {key} contains {} {c} times", ename(e))));
            }
        }
        for i in exp_nodes {
            if !counts.contains_key(&t.nodes[*i].elem) {
                out.push(v("refs/referrer-lost", "", format!("reference {} at {} has text {key} but is not in the referrer list of that path", ename(&t.nodes[*i].elem), t.pos_path(*i))));
            }
        }
        // public accessor agrees with the hook
        let public: Vec<Element> = model.get_references_to(key).iter().filter_map(WeakElement::upgrade).collect();
        let mut a: Vec<String> = public.iter().map(|e| t.pos_path_of(e).unwrap_or_else(|| "<outside>".into())).collect();
        let mut b: Vec<String> = live.iter().map(|e| t.pos_path_of(e).unwrap_or_else(|| "<outside>".into())).collect();
        a.sort();
        b.sort();
        if a != b {
            out.push(v("refs/get_references_to-differs", "", format!("get_references_to({key}) = {a:?}, internal list {b:?}")));
        }
        if out.len() > 12 {
            return out;
        }
    }
    // report oracle
    let index = expected_index(t);
    let report: Vec<Element> = model.check_references().iter().filter_map(WeakElement::upgrade).collect();
    let report_set: HashSet<&Element> = report.iter().collect();
    if report_set.len() != report.len() {
        out.push(v("refs/report-duplicate", "", "check_references lists an element twice".into()));
    }
    let mut expected_broken: HashSet<&Element> = HashSet::new();
    for (text, nodes) in &expected {
        let target: Option<&Element> = match index.map.get(text) {
            Some(ns) if ns.len() == 1 => Some(&t.nodes[ns[0]].elem),
            Some(_) => continue, // ambiguous path: belongs to C04, do not judge here
            None => None,
        };
        for i in nodes {
            let r = &t.nodes[*i].elem;
            let dest = r.attribute_value(AttributeName::Dest).and_then(|c| c.enum_value());
            let valid = match (target, dest) {
                (Some(tg), Some(d)) => tg.element_type().verify_reference_dest(d),
                _ => false,
            };
            if !valid {
                expected_broken.insert(r);
            }
            let resolved = r.get_reference_target();
            let resolves_to_target = match (&resolved, target) {
                (Ok(x), Some(tg)) => x == tg,
                _ => false,
            };
            if valid != resolves_to_target {
                out.push(v(
                    "refs/resolve-disagrees",
                    if valid { "valid-but-unresolved" } else { "invalid-but-resolved" },
                    format!("reference at {} text {text}: oracle valid={valid}, get_reference_target() = {:?}", t.pos_path(*i), resolved.map(|x| ename(&x)).map_err(|x| x.to_string())),
                ));
            }
        }
    }
    for e in &report_set {
        if !expected_broken.contains(*e) {
            let what = if t.contains(e) { "valid-reference" } else { "not-in-model" };
            out.push(v("refs/report-false-positive", what, format!("check_references reports {} ({what}, text {:?})", ename(e), ref_text(e))));
        }
    }
    for e in &expected_broken {
        if !report_set.contains(*e) {
            out.push(v("refs/report-false-negative", "", format!("check_references does not report the invalid reference at {} (text {:?})", t.pos_path_of(e).unwrap_or_default(), ref_text(e))));
        }
    }
    out
}

// ------------------------------------------------------------------------------------------------
// M_files (C10)

pub fn m_files(model: &AutosarModel, t: &Tree, check_text: bool, seen: &mut Seen) -> Vec<Viol> {
    let mut out = Vec::new();
    let files: Vec<ArxmlFile> = model.files().collect();
    seen.files += files.len() as u64;
    let labels: BTreeSet<String> = files.iter().map(file_label).collect();
    if files.is_empty() {
        return out;
    }
    // local sets
    let mut parent_eff: Vec<BTreeSet<String>> = Vec::with_capacity(t.nodes.len());
    for (i, n) in t.nodes.iter().enumerate() {
        let inherited = match n.parent {
            Some(p) => parent_eff[p].clone(),
            None => labels.clone(),
        };
        let mine = match n.elem.file_membership() {
            Ok((true, set)) => {
                seen.restricted += 1;
                let mut local = BTreeSet::new();
                for w in &set {
                    match w.upgrade() {
                        Some(f) if files.contains(&f) => {
                            local.insert(file_label(&f));
                        }
                        Some(f) => out.push(v("files/foreign-file-in-set", "", format!("{} at {} is restricted to file {} which does not belong to the model", ename(&n.elem), t.pos_path(i), file_label(&f)))),
                        None => out.push(v("files/dead-file-in-set", "", format!("{} at {} is restricted to a file that no longer exists", ename(&n.elem), t.pos_path(i)))),
                    }
                }
                if n.parent.is_some() {
                    for l in &local {
                        if !inherited.contains(l) {
                            out.push(v("files/not-subset-of-parent", "", format!("{} at {} is restricted to {l} but its parent is not in that file", ename(&n.elem), t.pos_path(i))));
                        }
                    }
                }
                if n.parent.is_none() {
                    local
                } else {
                    local.intersection(&inherited).cloned().collect()
                }
            }
            Ok((false, _)) => inherited,
            Err(e) => {
                out.push(v("files/membership-error", "", format!("{} at {}: file_membership() = Err({e})", ename(&n.elem), t.pos_path(i))));
                inherited
            }
        };
        if mine.is_empty() {
            out.push(v("files/element-in-no-file", if n.parent.is_none() { "root" } else { "inner" }, format!("{} at {} is written to no file", ename(&n.elem), t.pos_path(i))));
        }
        parent_eff.push(mine);
        if out.len() > 12 {
            return out;
        }
    }
    // union of per file dfs == all elements
    let mut covered: HashSet<Element> = HashSet::new();
    for f in &files {
        for (_, e) in f.elements_dfs() {
            covered.insert(e);
        }
    }
    for (i, n) in t.nodes.iter().enumerate() {
        if !covered.contains(&n.elem) && !parent_eff[i].is_empty() {
            out.push(v("files/dfs-union-misses-element", "", format!("{} at {} is in no file scoped iteration", ename(&n.elem), t.pos_path(i))));
            break;
        }
    }
    if check_text && out.is_empty() {
        let opts = DumpOpts {
            normalise_text: true,
            skip_root_attrs: true,
            ..Default::default()
        };
        for f in &files {
            let label = file_label(f);
            let expected = dump_tree_filtered(t, &opts, &|i| parent_eff[i].contains(&label));
            match f.serialize() {
                Ok(text) => {
                    let fresh = AutosarModel::new();
                    match fresh.load_buffer(text.as_bytes(), "reload.arxml", false) {
                        Ok(_) => {
                            let ft = Tree::of_model(&fresh);
                            let got = dump_tree(&ft, &opts);
                            if got != expected {
                                out.push(v("files/text-differs-from-projection", "", format!("file {label}: reloaded text differs from the projection of the model on that file\n--- expected\n{}\n--- reloaded\n{}", clip(&expected), clip(&got))));
                            }
                        }
                        Err(e) => out.push(v("files/text-does-not-load", &crate::hist::err_variant(&e), format!("file {label}: serialized text does not load on its own: {e}"))),
                    }
                }
                Err(e) => out.push(v("files/serialize-error", &crate::hist::err_variant(&e), format!("file {label}: serialize() = Err({e})"))),
            }
        }
    }
    out
}

pub fn clip(s: &str) -> String {
    if s.len() > 1500 {
        let mut end = 1500;
        while !s.is_char_boundary(end) {
            end -= 1;
        }
        format!("{}…", &s[..end])
    } else {
        s.to_string()
    }
}
