//! maps `file:line` of a lock site to the enclosing function, by scanning /repo/autosar-data/src at start up
//! (signatures must survive line shifts)

use std::collections::HashMap;
use std::sync::OnceLock;

static INDEX: OnceLock<HashMap<String, Vec<(u32, String)>>> = OnceLock::new();

fn build() -> HashMap<String, Vec<(u32, String)>> {
    let mut map = HashMap::new();
    let dir = std::path::Path::new("/repo/autosar-data/src");
    if let Ok(rd) = std::fs::read_dir(dir) {
        for entry in rd.flatten() {
            let path = entry.path();
            if path.extension().is_some_and(|e| e == "rs") {
                if let Ok(text) = std::fs::read_to_string(&path) {
                    let mut fns = Vec::new();
                    for (i, line) in text.lines().enumerate() {
                        let t = line.trim_start();
                        if t.starts_with("//") {
                            continue;
                        }
                        if let Some(p) = t.find("fn ") {
                            let before = &t[..p];
                            if before.chars().all(|c| c.is_alphanumeric() || c == ' ' || c == '(' || c == ')' || c == '_') {
                                let name: String = t[p + 3..].chars().take_while(|c| c.is_alphanumeric() || *c == '_').collect();
                                if !name.is_empty() {
                                    fns.push((i as u32 + 1, name));
                                }
                            }
                        }
                    }
                    map.insert(path.file_name().unwrap().to_string_lossy().into_owned(), fns);
                }
            }
        }
    }
    map
}

/// enclosing function of file:line ("?" if unknown)
pub fn function_at(file: &str, line: u32) -> String {
    let idx = INDEX.get_or_init(build);
    let base = file.rsplit('/').next().unwrap_or(file);
    match idx.get(base) {
        Some(fns) => fns.iter().rev().find(|(l, _)| *l <= line).map_or("?".to_string(), |(_, n)| n.clone()),
        None => "?".to_string(),
    }
}

/// "file.rs:function" for a "file.rs:line" site
pub fn site_fn(site: &str) -> String {
    match site.rsplit_once(':') {
        Some((file, line)) => {
            let line: u32 = line.parse().unwrap_or(0);
            format!("{}:{}", file.rsplit('/').next().unwrap_or(file), function_at(file, line))
        }
        None => site.to_string(),
    }
}
