//! C20 — typed values format and parse consistently; numeric interpretation is exact (TABLE engine)

use crate::genmodel::*;
use crate::json::J;
use crate::report::Report;
use crate::rng::{hash_str, Rng};
use crate::rx::{Dfa, DEAD};
use crate::specwalk::SpecWalk;
use autosar_data::*;
use autosar_data_specification::{CharacterDataSpec, ElementType};

fn same(a: &CharacterData, b: &CharacterData) -> bool {
    match (a, b) {
        (CharacterData::Float(x), CharacterData::Float(y)) => x.to_bits() == y.to_bits() || (x.is_nan() && y.is_nan()),
        _ => a == b,
    }
}

fn viol(rep: &mut Report, rule: &str, pred: &str, detail: String) {
    rep.violation(rule, &format!("C20:{rule}:{pred}"), &detail, J::obj().with("engine", J::s("table")).with("detail", J::s(detail.clone())));
}

/// find element types by the kind of their character data
fn find_types(walk: &SpecWalk) -> (Option<ElementType>, Option<ElementType>, Option<ElementType>, Vec<(ElementType, &'static [(EnumItem, u32)])>) {
    let mut string_t = None;
    let mut uint_t = None;
    let mut float_t = None;
    let mut enums: Vec<(ElementType, &'static [(EnumItem, u32)])> = Vec::new();
    let mut seen_enum: Vec<*const (EnumItem, u32)> = Vec::new();
    for info in &walk.types {
        let t = info.etype;
        if path_versions(walk, t) == 0 {
            continue;
        }
        match t.chardata_spec() {
            Some(CharacterDataSpec::String { preserve_whitespace: true, max_length: None }) if string_t.is_none() && t.content_mode() == autosar_data_specification::ContentMode::Characters => string_t = Some(t),
            Some(CharacterDataSpec::UnsignedInteger) if uint_t.is_none() => uint_t = Some(t),
            Some(CharacterDataSpec::Float) if float_t.is_none() => float_t = Some(t),
            Some(CharacterDataSpec::Enum { items }) => {
                if !seen_enum.contains(&items.as_ptr()) {
                    seen_enum.push(items.as_ptr());
                    enums.push((t, *items));
                }
            }
            _ => {}
        }
    }
    (string_t, uint_t, float_t, enums)
}

struct Site {
    model: AutosarModel,
    file: ArxmlFile,
    elem: Element,
}

fn site(walk: &SpecWalk, t: ElementType) -> Option<Site> {
    let (model, file, _) = model_for_mask(path_versions(walk, t))?;
    let mut k = 0;
    let elem = build_to(&model, walk, t, &mut k).ok()?;
    Some(Site { model, file, elem })
}

/// set -> get, serialize -> load -> get, to_string -> parse through set_attribute_string of a same-typed attribute if one exists
fn round_trip(rep: &mut Report, s: &Site, v: &CharacterData, kind: &str, through_file: bool) {
    rep.evaluations += 1;
    rep.count(&format!("roundtrip.{kind}"), 1);
    if let Err(e) = s.elem.set_character_data(v.clone()) {
        viol(rep, "roundtrip/set-rejected", kind, format!("set_character_data({v:?}) on {} failed: {e}", s.elem.element_name()));
        return;
    }
    match s.elem.character_data() {
        Some(got) if same(&got, v) => {}
        other => viol(rep, "roundtrip/get-differs", kind, format!("set {v:?}, character_data() = {other:?}")),
    }
    // formatting then parsing with the same value type: to_string() and a fresh set with the text
    let text = v.to_string();
    if !matches!(v, CharacterData::String(_)) {
        // the text form of a typed value set as a string is converted by the library for string/pattern types only; use the file path instead
    }
    if through_file {
        match s.file.serialize() {
            Ok(doc) => {
                let fresh = AutosarModel::new();
                // lenient: the micro model does not set required attributes of the elements on the path
                match fresh.load_buffer(doc.as_bytes(), "rt.arxml", false) {
                    Ok(_) => {
                        // the element is the last one in document order of its type
                        let found = fresh.elements_dfs().map(|(_, e)| e).filter(|e| e.element_type() == s.elem.element_type()).last();
                        match found.and_then(|e| e.character_data()) {
                            Some(got) if same(&got, v) => {}
                            other => viol(rep, "roundtrip/file-differs", kind, format!("value {v:?} (text {text:?}) comes back from serialize+load as {other:?}")),
                        }
                    }
                    Err(e) => viol(rep, "roundtrip/file-rejected", kind, format!("value {v:?}: the serialized document is rejected by loading: {e}")),
                }
            }
            Err(e) => viol(rep, "roundtrip/serialize-failed", kind, format!("{e}")),
        }
    }
    let _ = &s.model;
}

const INT_PATTERN: &str = r"0|[\+\-]?[1-9][0-9]*|0[xX][0-9a-fA-F]+|0[bB][0-1]+|0[0-7]+";
const FLOAT_PATTERN: &str = r"(0[xX][0-9a-fA-F]+)|(0[0-7]+)|(0[bB][0-1]+)|(([+\-]?[1-9][0-9]+(\.[0-9]+)?|[+\-]?[0-9](\.[0-9]+)?)([eE]([+\-]?)[0-9]+)?)|\.0|INF|-INF|NaN";

/// random member of the language by a walk on the automaton
fn member(rng: &mut Rng, d: &Dfa, max_len: usize) -> String {
    loop {
        let target = rng.range(1, max_len);
        let mut st = d.start;
        let mut s = String::new();
        let mut guard = 0;
        while guard < 200 {
            guard += 1;
            if d.accept[st] && s.len() >= target {
                return s;
            }
            let options: Vec<usize> = (0..d.n_symbols).filter(|sym| d.trans[st][*sym] != DEAD).collect();
            if options.is_empty() {
                if d.accept[st] {
                    return s;
                }
                break;
            }
            let sym = *rng.pick(&options);
            let members: Vec<u8> = (0..=255u8).filter(|b| d.byte_class[*b as usize] == sym).collect();
            s.push(*rng.pick(&members) as char);
            st = d.trans[st][sym];
        }
        if d.accept[st] {
            return s;
        }
    }
}

/// exact value of an integer text in the AUTOSAR forms (None: not in the forms handled here)
fn exact_integer(text: &str) -> Option<(bool, u128)> {
    let (neg, body) = if let Some(b) = text.strip_prefix('-') {
        (true, b)
    } else if let Some(b) = text.strip_prefix('+') {
        (false, b)
    } else {
        (false, text)
    };
    let (radix, digits) = if let Some(d) = body.strip_prefix("0x").or_else(|| body.strip_prefix("0X")) {
        (16, d)
    } else if let Some(d) = body.strip_prefix("0b").or_else(|| body.strip_prefix("0B")) {
        (2, d)
    } else if body.len() > 1 && body.starts_with('0') {
        (8, &body[1..])
    } else {
        (10, body)
    };
    if digits.is_empty() {
        return None;
    }
    let mut v: u128 = 0;
    for c in digits.chars() {
        let d = c.to_digit(radix)? as u128;
        v = v.checked_mul(radix as u128)?.checked_add(d)?;
    }
    Some((neg, v))
}

macro_rules! check_int {
    ($rep:expr, $cd:expr, $text:expr, $exact:expr, $t:ty) => {{
        let got: Option<$t> = $cd.parse_integer::<$t>();
        let (neg, mag) = $exact;
        let expected: Option<$t> = if neg {
            if mag <= (<$t>::MAX as u128) + 1 && <$t>::MIN != 0 {
                Some((-(mag as i128)) as $t)
            } else if mag == 0 {
                Some(0 as $t)
            } else {
                None
            }
        } else if mag <= <$t>::MAX as u128 {
            Some(mag as $t)
        } else {
            None
        };
        $rep.evaluations += 1;
        if got != expected {
            let class = if got.is_none() { "fits-but-none" } else if expected.is_none() { "does-not-fit-but-some" } else { "wrong-number" };
            viol($rep, "integer/wrong-interpretation", &format!("{}:{class}", stringify!($t)), format!("parse_integer::<{}>({:?}) = {:?}, exact value requires {:?}", stringify!($t), $text, got, expected));
        }
    }};
}

pub fn run(rep: &mut Report, tier: &str) {
    let thorough = tier == "thorough";
    let mut rng = Rng::derive(rep.seed, "c20", 0);
    rep.rule = "O1: set/get/serialize/strict-load round trip of every enumeration item of every enumeration type (in a version where it is valid), strings over an alphabet with every escapable character, u64 boundary and random values, f64 bit classes and random bit patterns; O2: texts generated by walks over the automata of the published integer/numerical/boolean patterns, interpreted by parse_integer for 10 integer types (exact u128 arithmetic as oracle), parse_float (CPython float()/int() as oracle) and parse_bool (table); distinct by (kind, value/text)".into();
    rep.assumptions.push("CPython's float(str) and float(int(str, base)) are correctly rounded; membership in the lexical forms is decided by the published regexes (harness automaton, see C19)".into());
    let walk = SpecWalk::new();
    let (string_t, uint_t, float_t, enums) = find_types(&walk);

    // ---------------- O1 round trips
    if let Some(s) = string_t.and_then(|t| site(&walk, t)) {
        let alphabet = ["a", "Z", "0", " ", "&", "<", ">", "\"", "'", "&amp;", "&#65;", "\u{e4}", "\u{20ac}", "\u{1F600}", "]]>", "--", "\t", "/", "%", ";"];
        let n = if thorough { 200_000 } else { 20_000 };
        for i in 0..n {
            let len = rng.range(1, 8);
            let mut text = String::new();
            for _ in 0..len {
                let piece: &str = alphabet[rng.below(alphabet.len())];
                text.push_str(piece);
            }
            // leading/trailing whitespace of a whitespace-preserving type survives as well, except whitespace-only text (dropped by the tokenizer)
            if text.trim().is_empty() {
                text.push('x');
            }
            let v = CharacterData::String(text.clone());
            rep.distinct.insert(hash_str(&text) ^ 1);
            round_trip(rep, &s, &v, "string", i % 4 == 0);
        }
        rep.sample(J::obj().with("kind", J::s("string round trip")).with("element", J::s(s.elem.element_name().to_str())).with("value", J::s("a&<\u{e4}\"")));
    } else {
        rep.inconclusive("no string element type found");
    }
    // strings in attributes (quoting context differs from element text)
    let attr_site = walk.types.iter().find_map(|info| {
        let t = info.etype;
        if path_versions(&walk, t) == 0 {
            return None;
        }
        let attr = t.attribute_spec_iter().find(|(_, spec, _)| matches!(spec, CharacterDataSpec::String { max_length: None, .. }))?;
        site(&walk, t).map(|s| (s, attr.0))
    });
    if let Some((s, attr)) = attr_site {
        let alphabet = ["a", "Z", "0", " ", "&", "<", ">", "\"", "'", "&quot;", "\u{e4}", "=", "/>", "\t"];
        let n = if thorough { 100_000 } else { 8_000 };
        for i in 0..n {
            let len = rng.range(1, 6);
            let mut text = String::new();
            for _ in 0..len {
                text.push_str(alphabet[rng.below(alphabet.len())]);
            }
            let text = text.trim().to_string();
            if text.is_empty() {
                continue;
            }
            rep.evaluations += 1;
            rep.count("roundtrip.attribute-string", 1);
            rep.distinct.insert(hash_str(&text) ^ 7);
            let v = CharacterData::String(text.clone());
            if let Err(e) = s.elem.set_attribute(attr, v.clone()) {
                viol(rep, "roundtrip/set-rejected", "attribute-string", format!("set_attribute({attr:?}, {text:?}): {e}"));
                continue;
            }
            if s.elem.attribute_value(attr).as_ref() != Some(&v) {
                viol(rep, "roundtrip/get-differs", "attribute-string", format!("set {text:?}, attribute_value = {:?}", s.elem.attribute_value(attr)));
            }
            if i % 2 == 0 {
                if let Ok(doc) = s.file.serialize() {
                    let fresh = AutosarModel::new();
                    match fresh.load_buffer(doc.as_bytes(), "rt.arxml", false) {
                        Ok((_, warnings)) => {
                            let found = fresh.elements_dfs().map(|(_, e)| e).filter(|e| e.element_type() == s.elem.element_type()).last();
                            let got = found.and_then(|e| e.attribute_value(attr));
                            let bad_warning = warnings.iter().find(|w| !w.to_string().contains("is required in element"));
                            if got.as_ref() != Some(&v) || bad_warning.is_some() {
                                viol(rep, "roundtrip/file-differs", "attribute-string", format!("attribute value {text:?} comes back from serialize+load as {got:?} (warning: {:?})", bad_warning.map(|w| w.to_string())));
                            }
                        }
                        Err(e) => viol(rep, "roundtrip/file-rejected", "attribute-string", format!("attribute value {text:?}: the serialized document is rejected: {e}")),
                    }
                }
            }
        }
        rep.sample(J::obj().with("kind", J::s("attribute string round trip")).with("element", J::s(s.elem.element_name().to_str())).with("attribute", J::s(attr.to_str())));
        rep.require("roundtrip.attribute-string", 1000);
    } else {
        rep.inconclusive("no string attribute found");
    }
    if let Some(s) = uint_t.and_then(|t| site(&walk, t)) {
        let mut vals: Vec<u64> = vec![0, 1, 9, 10, u64::MAX, u64::MAX - 1, u64::from(u32::MAX), u64::from(u32::MAX) + 1, 1 << 53, (1 << 53) + 1];
        for k in 0..64 {
            vals.push(1u64 << k);
            vals.push((1u64 << k).wrapping_sub(1));
            vals.push((1u64 << k).wrapping_add(1));
        }
        for _ in 0..(if thorough { 1_000_000 } else { 30_000 }) {
            vals.push(rng.next() >> rng.below(64));
        }
        for (i, v) in vals.iter().enumerate() {
            rep.distinct.insert(v ^ 0x5555);
            round_trip(rep, &s, &CharacterData::UnsignedInteger(*v), "u64", i % 16 == 0 || i < 300);
        }
        rep.sample(J::obj().with("kind", J::s("u64 round trip")).with("element", J::s(s.elem.element_name().to_str())).with("value", J::s(u64::MAX.to_string())));
    } else {
        rep.inconclusive("no unsigned integer element type found");
    }
    if let Some(s) = float_t.and_then(|t| site(&walk, t)) {
        let mut vals: Vec<f64> = vec![0.0, -0.0, 1.0, -1.0, 0.1, 1e21, 1e-7, f64::MAX, f64::MIN, f64::MIN_POSITIVE, f64::MIN_POSITIVE / 2.0, f64::from_bits(1), f64::INFINITY, f64::NEG_INFINITY, f64::NAN, 5e-324, 1.7976931348623157e308, 2.2250738585072014e-308, 123456789.125, 0.30000000000000004];
        for _ in 0..(if thorough { 3_000_000 } else { 60_000 }) {
            vals.push(f64::from_bits(rng.next()));
        }
        for (i, v) in vals.iter().enumerate() {
            rep.distinct.insert(v.to_bits() ^ 0xAAAA);
            let class = if v.is_nan() {
                "f64-nan"
            } else if v.is_infinite() {
                "f64-inf"
            } else if v.is_subnormal() {
                "f64-subnormal"
            } else {
                "f64"
            };
            round_trip(rep, &s, &CharacterData::Float(*v), class, i % 16 == 0 || i < 100);
        }
        rep.sample(J::obj().with("kind", J::s("f64 round trip")).with("element", J::s(s.elem.element_name().to_str())).with("value_bits", J::s(format!("{:#x}", f64::MIN_POSITIVE.to_bits()))));
    } else {
        rep.inconclusive("no float element type found");
    }
    // enumerations: every item of every enumeration type, in the highest version where item and path exist
    let mut enum_items = 0u64;
    for (t, items) in &enums {
        let pv = path_versions(&walk, *t);
        let mut by_mask: std::collections::BTreeMap<u32, Vec<EnumItem>> = std::collections::BTreeMap::new();
        for (item, mask) in items.iter() {
            by_mask.entry(mask & pv).or_default().push(*item);
        }
        for (mask, list) in by_mask {
            if mask == 0 {
                rep.count("enum_items_without_common_version_with_their_path", list.len() as u64);
                continue;
            }
            let Some((model, file, _)) = model_for_mask(mask) else { continue };
            let mut k = 0;
            let Ok(elem) = build_to(&model, &walk, *t, &mut k) else {
                rep.count("enum_sites_not_buildable", 1);
                continue;
            };
            let s = Site { model, file, elem };
            for (i, item) in list.iter().enumerate() {
                enum_items += 1;
                rep.distinct.insert(hash_str(item.to_str()) ^ (t.content_mode() as u64) ^ u64::from(mask));
                round_trip(rep, &s, &CharacterData::Enum(*item), "enum", i < 3 || thorough);
                // text form parses back to the same item
                if EnumItem::from_bytes(CharacterData::Enum(*item).to_string().as_bytes()).ok() != Some(*item) {
                    viol(rep, "roundtrip/enum-text", "enum", format!("{item:?}"));
                }
            }
        }
    }
    rep.count("enum_items_round_tripped", enum_items);
    rep.count("enum_types", enums.len() as u64);

    // ---------------- O2 numeric interpretation
    let int_dfa = Dfa::new(INT_PATTERN).expect("integer pattern");
    let float_dfa = Dfa::new(FLOAT_PATTERN).expect("float pattern");
    let n_int = if thorough { 600_000 } else { 40_000 };
    let mut int_texts: Vec<String> = vec!["0", "1", "+1", "-1", "255", "256", "-128", "-129", "127", "128", "65535", "65536", "-32768", "-32769", "4294967295", "4294967296", "-2147483648", "-2147483649", "18446744073709551615", "18446744073709551616", "-9223372036854775808", "-9223372036854775809", "9223372036854775807", "9223372036854775808", "0xFF", "0x100", "0XffffFFFF", "0x100000000", "0xFFFFFFFFFFFFFFFF", "0x10000000000000000", "0x7FFFFFFFFFFFFFFF", "0x8000000000000000", "0b0", "0b1", "0B11111111", "0b100000000", "00", "07", "010", "0377", "0400", "01777777777777777777777", "02000000000000000000000", "0x0", "0x00000000000000000001"]
        .iter()
        .map(|s| (*s).to_string())
        .collect();
    for _ in 0..n_int {
        int_texts.push(member(&mut rng, &int_dfa, 24));
    }
    for text in &int_texts {
        if !int_dfa.matches(text.as_bytes()) {
            continue;
        }
        let Some(exact) = exact_integer(text) else {
            rep.count("integer_texts_beyond_u128(not judged)", 1);
            continue;
        };
        rep.count("integer_texts", 1);
        rep.distinct.insert(hash_str(text) ^ 0x1111);
        let cd = CharacterData::String(text.clone());
        check_int!(rep, cd, text, exact, u8);
        check_int!(rep, cd, text, exact, u16);
        check_int!(rep, cd, text, exact, u32);
        check_int!(rep, cd, text, exact, u64);
        check_int!(rep, cd, text, exact, usize);
        check_int!(rep, cd, text, exact, i8);
        check_int!(rep, cd, text, exact, i16);
        check_int!(rep, cd, text, exact, i32);
        check_int!(rep, cd, text, exact, i64);
        check_int!(rep, cd, text, exact, isize);
    }
    for v in [0u64, 1, 255, 256, u64::MAX] {
        let cd = CharacterData::UnsignedInteger(v);
        check_int!(rep, cd, v.to_string(), (false, u128::from(v)), u8);
        check_int!(rep, cd, v.to_string(), (false, u128::from(v)), i64);
        check_int!(rep, cd, v.to_string(), (false, u128::from(v)), u64);
        if cd.parse_float() != Some(v as f64) {
            viol(rep, "float/wrong-interpretation", "from-u64", format!("UnsignedInteger({v}).parse_float()"));
        }
    }
    // typed variants: accessors, conversions and the interpretation of values that are already numbers
    for bits in [0u64, 1, 0x8000_0000_0000_0000, 0x3FF8_0000_0000_0000, 0x7FF0_0000_0000_0000, 0xFFF0_0000_0000_0000, 0x7FF8_0000_0000_0000, 0x000F_FFFF_FFFF_FFFF, 0x7FEF_FFFF_FFFF_FFFF, 0xC05E_DD2F_1A9F_BE77] {
        let v = f64::from_bits(bits);
        let cd = CharacterData::from(v);
        rep.evaluations += 1;
        rep.count("typed_variant_checks", 1);
        let same = |a: Option<f64>| a.is_some_and(|a| a.to_bits() == v.to_bits() || (a.is_nan() && v.is_nan()));
        if !matches!(cd, CharacterData::Float(_)) || !same(cd.float_value()) || !same(cd.parse_float()) {
            viol(rep, "float/wrong-interpretation", "from-f64", format!("CharacterData::from({v:e}): float_value() = {:?}, parse_float() = {:?}", cd.float_value(), cd.parse_float()));
        }
        if cd.unsigned_integer_value().is_some() || cd.string_value().is_some() || cd.enum_value().is_some() || cd.parse_bool().is_some() {
            viol(rep, "typed/accessor-of-another-kind-answers", "float", format!("Float({v:e}): unsigned_integer_value/string_value/enum_value/parse_bool must be None"));
        }
    }
    for v in [0u64, 1, 2, 255, u64::from(u32::MAX), u64::MAX] {
        let cd = CharacterData::from(v);
        rep.evaluations += 1;
        rep.count("typed_variant_checks", 1);
        if cd.unsigned_integer_value() != Some(v) || cd.float_value().is_some() || cd.string_value().is_some() || cd.enum_value().is_some() {
            viol(rep, "typed/accessor-of-another-kind-answers", "unsigned", format!("UnsignedInteger({v}): unsigned_integer_value() = {:?}", cd.unsigned_integer_value()));
        }
    }
    for b in [true, false] {
        let cd = CharacterData::from(b);
        rep.evaluations += 1;
        rep.count("typed_variant_checks", 1);
        if cd.parse_bool() != Some(b) || cd.to_string() != b.to_string() {
            viol(rep, "bool/wrong-interpretation", "from-bool", format!("CharacterData::from({b}) = {cd:?}: parse_bool() = {:?}", cd.parse_bool()));
        }
    }
    for item in [autosar_data_specification::EnumItem::Abstract, autosar_data_specification::EnumItem::default, autosar_data_specification::EnumItem::EcuInstance] {
        let cd = CharacterData::from(item);
        rep.evaluations += 1;
        rep.count("typed_variant_checks", 1);
        if cd.enum_value() != Some(item) || cd.to_string() != item.to_str() || cd.string_value().is_some() || cd.parse_integer::<u32>().is_some() || cd.parse_float().is_some() {
            viol(rep, "typed/accessor-of-another-kind-answers", "enum", format!("CharacterData::from({item:?}) = {cd:?}"));
        }
    }
    for (text, cd) in [("abc", CharacterData::from("abc")), ("x y", CharacterData::from("x y".to_string()))] {
        rep.evaluations += 1;
        rep.count("typed_variant_checks", 1);
        if cd.string_value().as_deref() != Some(text) || cd.float_value().is_some() || cd.unsigned_integer_value().is_some() || cd.enum_value().is_some() {
            viol(rep, "typed/accessor-of-another-kind-answers", "string", format!("CharacterData::from({text:?}) = {cd:?}"));
        }
    }
    rep.sample(J::obj().with("kind", J::s("integer text")).with("texts", J::arr_of_str(int_texts.iter().skip(45).take(6).cloned())));

    // floats: expected values from CPython
    let n_float = if thorough { 400_000 } else { 40_000 };
    let mut float_texts: Vec<String> = vec!["0", "1", "-1", "+1", "0.5", "1.5e3", "1E-2", "9.9e-400", "1e400", "-1e400", "INF", "-INF", "NaN", ".0", "0x10", "0XFF", "0b101", "017", "0x20000000000001", "0x20000000000003", "0xFFFFFFFFFFFFFFFF", "0x10000000000000000", "0xFFFFFFFFFFFFFFFFFFFF", "0b1111111111111111111111111111111111111111111111111111111111111111", "0b10000000000000000000000000000000000000000000000000000000000000000", "01777777777777777777777", "02000000000000000000000", "0.1", "0.30000000000000004", "2.2250738585072011e-308", "4.9406564584124654e-324", "2.4703282292062327e-324", "2.4703282292062328e-324", "17976931348623158e292", "8.5", "-0.0", "9007199254740993", "9007199254740992.5"]
        .iter()
        .map(|s| (*s).to_string())
        .collect();
    for _ in 0..n_float {
        float_texts.push(member(&mut rng, &float_dfa, 30));
    }
    float_texts.retain(|t| float_dfa.matches(t.as_bytes()));
    float_texts.sort();
    float_texts.dedup();
    match python_floats(&float_texts) {
        Ok(expected) => {
            for (text, exp) in float_texts.iter().zip(expected.iter()) {
                rep.evaluations += 1;
                rep.count("float_texts", 1);
                rep.distinct.insert(hash_str(text) ^ 0x2222);
                let got = CharacterData::String(text.clone()).parse_float();
                let ok = match (got, exp) {
                    (Some(g), Some(e)) => g.to_bits() == *e || (g.is_nan() && f64::from_bits(*e).is_nan()),
                    (None, None) => true,
                    _ => false,
                };
                if !ok {
                    let form = if text.starts_with("0x") || text.starts_with("0X") {
                        "hex"
                    } else if text.starts_with("0b") || text.starts_with("0B") {
                        "binary"
                    } else if text.len() > 1 && text.starts_with('0') && text.bytes().all(|b| b.is_ascii_digit()) {
                        "octal"
                    } else if text.contains("INF") || text == "NaN" {
                        "special"
                    } else {
                        "decimal"
                    };
                    let class = match (got, exp) {
                        (None, Some(e)) => {
                            if exact_integer(text).is_some_and(|(_, m)| m > u128::from(u64::MAX)) {
                                "none-for-integer-form-above-u64".to_string()
                            } else {
                                let _ = e;
                                "none-for-member".to_string()
                            }
                        }
                        (Some(_), None) => "some-for-unrepresentable".to_string(),
                        _ => "wrong-number".to_string(),
                    };
                    viol(rep, "float/wrong-interpretation", &format!("{form}:{class}"), format!("parse_float({text:?}) = {:?} (bits {:?}), correctly rounded value has bits {:?}", got, got.map(f64::to_bits), exp));
                }
            }
            rep.sample(J::obj().with("kind", J::s("float text")).with("texts", J::arr_of_str(float_texts.iter().take(8).cloned())));
        }
        Err(e) => rep.inconclusive(&format!("float oracle (CPython) not available: {e}")),
    }
    // booleans
    for (text, exp) in [("true", Some(true)), ("false", Some(false)), ("1", Some(true)), ("0", Some(false)), ("TRUE", None), ("2", None), ("", None), ("yes", None), (" true", None)] {
        rep.evaluations += 1;
        rep.count("bool_texts", 1);
        let got = CharacterData::String(text.to_string()).parse_bool();
        if got != exp {
            viol(rep, "bool/wrong-interpretation", text, format!("parse_bool({text:?}) = {got:?}, expected {exp:?}"));
        }
    }
    rep.require("roundtrip.string", 1000);
    rep.require("roundtrip.u64", 1000);
    rep.require("roundtrip.f64", 1000);
    rep.require("roundtrip.f64-subnormal", 5);
    rep.require("enum_items_round_tripped", 2000);
    rep.require("integer_texts", 10_000);
    rep.require("float_texts", 5_000);
}

/// expected f64 bits for each text (None: the value is not a finite/inf/nan float, which cannot happen for members)
fn python_floats(texts: &[String]) -> Result<Vec<Option<u64>>, String> {
    let root = crate::report::verif_root();
    let script = root.join("oracles/py/floatvec.py");
    let dir = root.join("harness/target/tmp");
    std::fs::create_dir_all(&dir).map_err(|e| e.to_string())?;
    let input = dir.join(format!("floatvec-{}.txt", std::process::id()));
    std::fs::write(&input, texts.join("\n")).map_err(|e| e.to_string())?;
    let out = std::process::Command::new("python3").arg(&script).arg(&input).output().map_err(|e| e.to_string())?;
    let _ = std::fs::remove_file(&input);
    if !out.status.success() {
        return Err(format!("floatvec.py failed: {}", String::from_utf8_lossy(&out.stderr).lines().last().unwrap_or("")));
    }
    let text = String::from_utf8_lossy(&out.stdout);
    let vals: Vec<Option<u64>> = text.lines().map(|l| if l == "none" { None } else { u64::from_str_radix(l.trim(), 16).ok() }).collect();
    if vals.len() != texts.len() {
        return Err(format!("floatvec.py returned {} lines for {} texts", vals.len(), texts.len()));
    }
    Ok(vals)
}
