//! panic observer: a silent panic hook which records message and location per thread

use crate::lockmon::SelfDeadlock;
use std::cell::RefCell;
use std::panic::{catch_unwind, AssertUnwindSafe};

#[derive(Debug, Clone)]
pub enum Abnormal {
    Panic { msg: String, file: String, line: u32 },
    SelfDeadlock(SelfDeadlock),
    Other(String),
}

thread_local! {
    static LAST: RefCell<Option<(String, String, u32)>> = const { RefCell::new(None) };
}

pub fn install() {
    std::panic::set_hook(Box::new(|info| {
        let msg = if let Some(s) = info.payload().downcast_ref::<&str>() {
            (*s).to_string()
        } else if let Some(s) = info.payload().downcast_ref::<String>() {
            s.clone()
        } else if info.payload().is::<SelfDeadlock>() {
            "<self deadlock>".to_string()
        } else {
            "<non-string payload>".to_string()
        };
        let (file, line) = info.location().map_or((String::new(), 0), |l| (l.file().to_string(), l.line()));
        if std::env::var("VERIF_SHOW_PANICS").is_ok() {
            eprintln!("[panic] {msg} at {file}:{line}");
        }
        LAST.with(|l| *l.borrow_mut() = Some((msg, file, line)));
    }));
}

pub fn catch<R>(f: impl FnOnce() -> R) -> Result<R, Abnormal> {
    LAST.with(|l| *l.borrow_mut() = None);
    match catch_unwind(AssertUnwindSafe(f)) {
        Ok(r) => Ok(r),
        Err(payload) => {
            if let Some(sd) = payload.downcast_ref::<SelfDeadlock>() {
                return Err(Abnormal::SelfDeadlock(sd.clone()));
            }
            match LAST.with(|l| l.borrow_mut().take()) {
                Some((msg, file, line)) => Err(Abnormal::Panic { msg, file, line }),
                None => Err(Abnormal::Other(crate::report::panic_message(&payload))),
            }
        }
    }
}

/// normalise a panic message for signatures: digits collapsed, quoted payloads cut
pub fn normalise(msg: &str) -> String {
    let mut out = String::new();
    let mut last_digit = false;
    for c in msg.chars().take(160) {
        if c.is_ascii_digit() {
            if !last_digit {
                out.push('N');
            }
            last_digit = true;
        } else {
            last_digit = false;
            out.push(c);
        }
    }
    out
}

impl Abnormal {
    pub fn signature(&self) -> String {
        match self {
            Abnormal::Panic { msg, file, line } => {
                let f = file.rsplit('/').next().unwrap_or("");
                let func = if file.contains("/repo/") { crate::srcindex::function_at(file, *line) } else { "-".to_string() };
                format!("panic:{f}:{func}:{}", normalise(msg))
            }
            Abnormal::SelfDeadlock(sd) => format!("self-deadlock:{:?} {} in {} while holding {}", sd.mode, sd.class, crate::srcindex::site_fn(&sd.site), held_fn(&sd.held)),
            Abnormal::Other(m) => format!("panic:?:{}", normalise(m)),
        }
    }
    pub fn describe(&self) -> String {
        match self {
            Abnormal::Panic { msg, file, line } => format!("panic '{msg}' at {file}:{line}"),
            Abnormal::SelfDeadlock(sd) => format!(
                "blocking {:?} request on {} at {} can never be granted: the same thread holds {}",
                sd.mode, sd.class, sd.site, sd.held
            ),
            Abnormal::Other(m) => format!("panic '{m}'"),
        }
    }
}

/// "Write@file.rs:123" -> "Write@file.rs:function"
pub fn held_fn(held: &str) -> String {
    match held.split_once('@') {
        Some((mode, site)) => format!("{mode}@{}", crate::srcindex::site_fn(site)),
        None => held.to_string(),
    }
}
