//! SCHED engine: a serialising scheduler over real threads running real library code.
//! Every lock acquisition of the crate (reported by the lock shim) is a scheduling point; exactly one registered
//! thread runs at a time; a model of parking_lot's RwLock decides which requests are enabled.

use autosar_data::verif::{Decision, Kind, LockMonitor, Mode};
use std::cell::Cell;
use std::collections::HashMap;
use std::panic::{catch_unwind, AssertUnwindSafe, Location};
use std::sync::{Arc, Condvar, Mutex};

thread_local! { static TID: Cell<Option<usize>> = const { Cell::new(None) }; }

#[derive(Clone, Debug)]
pub struct Want {
    pub lock: u64,
    pub class: &'static str,
    pub mode: Mode,
    pub kind: Kind,
    pub site: String,
    /// a writer that has announced itself (writer bit set) and waits for the readers to leave
    pub phase2: bool,
}

#[derive(Clone, Debug)]
enum St {
    NotStarted,
    Running,
    Want(Want),
    Finished,
}

#[derive(Default, Clone, Debug)]
struct LockSt {
    /// holder or pending writer
    writer: Option<usize>,
    readers: Vec<usize>,
}

#[derive(Clone, Debug)]
pub struct Held {
    pub lock: u64,
    pub class: &'static str,
    pub mode: Mode,
    pub site: String,
}

struct Th {
    st: St,
    held: Vec<Held>,
    decision: Option<Decision>,
}

/// a point where the scheduler had a choice: how many candidates there were and which one it took
#[derive(Clone, Debug)]
pub struct ChoicePoint {
    pub candidates: usize,
    pub taken: usize,
    /// the taken candidate differs from the default policy (continue the running thread, no spontaneous timeout)
    pub deviation: bool,
    /// number of locks held at this point by the thread the default policy would continue
    pub holding: usize,
}

#[derive(Clone, Debug)]
pub struct Blocked {
    pub tid: usize,
    pub want: Want,
    pub held: Vec<Held>,
}

#[derive(Clone, Debug, Default)]
pub struct Outcome {
    pub results: Vec<Option<String>>,
    pub deadlock: Option<Vec<Blocked>>,
    pub choices: Vec<ChoicePoint>,
    pub points: usize,
    pub timeouts_fired: usize,
    pub lock_events: usize,
    pub trace_hash: u64,
    pub context_switches: usize,
    pub mismatches: usize,
    pub budget_exceeded: bool,
}

pub enum Policy {
    /// uniform random among candidates
    Random(crate::rng::Rng),
    /// follow the prefix of candidate indices, afterwards the default policy (index 0)
    Prefix(Vec<usize>),
}

struct State {
    th: Vec<Th>,
    current: Option<usize>,
    last_run: Option<usize>,
    locks: HashMap<u64, LockSt>,
    policy: Policy,
    eager_timeouts: bool,
    abort: bool,
    out: Outcome,
}

pub struct Sched {
    st: Mutex<State>,
    cv: Condvar,
}

struct AbortToken;

pub fn short_class(class: &str) -> &'static str {
    if class.contains("ElementRaw") {
        "Element"
    } else if class.contains("AutosarModelRaw") {
        "Model"
    } else if class.contains("ArxmlFileRaw") {
        "File"
    } else {
        "?"
    }
}

impl State {
    fn enabled(&self, t: usize) -> bool {
        match &self.th[t].st {
            St::NotStarted => true,
            St::Running | St::Finished => false,
            St::Want(w) => {
                let empty = LockSt::default();
                let l = self.locks.get(&w.lock).unwrap_or(&empty);
                match (w.mode, w.kind) {
                    (_, Kind::Try) => true,
                    (Mode::Read, _) => l.writer.is_none(),
                    (Mode::Write, _) => {
                        if w.phase2 {
                            l.readers.is_empty()
                        } else {
                            l.writer.is_none()
                        }
                    }
                }
            }
        }
    }

    fn timed_blocked(&self, t: usize) -> bool {
        matches!(&self.th[t].st, St::Want(w) if matches!(w.kind, Kind::Timed(_))) && !self.enabled(t)
    }

    fn grant(&mut self, t: usize, w: &Want) {
        self.th[t].held.push(Held {
            lock: w.lock,
            class: w.class,
            mode: w.mode,
            site: w.site.clone(),
        });
        self.th[t].decision = Some(Decision::Grant);
        self.th[t].st = St::Running;
    }

    fn deny(&mut self, t: usize) {
        self.th[t].decision = Some(Decision::Deny);
        self.th[t].st = St::Running;
    }

    fn step(&mut self, t: usize, timeout: bool) {
        let st = self.th[t].st.clone();
        match st {
            St::NotStarted => self.th[t].st = St::Running,
            St::Want(w) => {
                let l = self.locks.entry(w.lock).or_default();
                if timeout {
                    if w.mode == Mode::Write && w.phase2 && l.writer == Some(t) {
                        l.writer = None;
                    }
                    self.out.timeouts_fired += 1;
                    self.deny(t);
                    return;
                }
                match (w.mode, w.kind) {
                    (Mode::Read, Kind::Try) => {
                        if l.writer.is_none() {
                            l.readers.push(t);
                            self.grant(t, &w);
                        } else {
                            self.deny(t);
                        }
                    }
                    (Mode::Write, Kind::Try) => {
                        if l.writer.is_none() && l.readers.is_empty() {
                            l.writer = Some(t);
                            self.grant(t, &w);
                        } else {
                            self.deny(t);
                        }
                    }
                    (Mode::Read, _) => {
                        l.readers.push(t);
                        self.grant(t, &w);
                    }
                    (Mode::Write, _) => {
                        if !w.phase2 {
                            l.writer = Some(t);
                        }
                        if l.readers.is_empty() {
                            self.grant(t, &w);
                        } else {
                            let mut w2 = w.clone();
                            w2.phase2 = true;
                            self.th[t].st = St::Want(w2);
                        }
                    }
                }
            }
            _ => {}
        }
    }

    /// pick threads to step until one is running, all are finished, or nothing can move (deadlock)
    fn pick(&mut self) {
        loop {
            self.out.points += 1;
            if self.out.points > 200_000 {
                self.out.budget_exceeded = true;
                self.abort = true;
                self.current = None;
                return;
            }
            let n = self.th.len();
            let enabled: Vec<usize> = (0..n).filter(|t| self.enabled(*t)).collect();
            let timed: Vec<usize> = (0..n).filter(|t| self.timed_blocked(*t)).collect();
            // candidates in a canonical order: default first (continue the thread that ran last if it is enabled, else lowest tid)
            let mut cands: Vec<(usize, bool)> = Vec::new();
            if let Some(c) = self.last_run {
                if enabled.contains(&c) {
                    cands.push((c, false));
                }
            }
            for t in &enabled {
                if !cands.iter().any(|(x, to)| x == t && !*to) {
                    cands.push((*t, false));
                }
            }
            if self.eager_timeouts || enabled.is_empty() {
                for t in &timed {
                    cands.push((*t, true));
                }
            }
            if cands.is_empty() {
                if self.th.iter().all(|t| matches!(t.st, St::Finished)) {
                    self.current = None;
                    return;
                }
                // deadlock
                let mut blocked = Vec::new();
                for (i, t) in self.th.iter().enumerate() {
                    if let St::Want(w) = &t.st {
                        blocked.push(Blocked {
                            tid: i,
                            want: w.clone(),
                            held: t.held.clone(),
                        });
                    }
                }
                self.out.deadlock = Some(blocked);
                self.abort = true;
                self.current = None;
                return;
            }
            let idx = if cands.len() == 1 {
                0
            } else {
                let taken_so_far = self.out.choices.len();
                let idx = match &mut self.policy {
                    Policy::Random(rng) => rng.below(cands.len()),
                    Policy::Prefix(p) => p.get(taken_so_far).copied().unwrap_or(0).min(cands.len() - 1),
                };
                let holding = self.last_run.map_or(0, |c| self.th[c].held.len());
                self.out.choices.push(ChoicePoint {
                    candidates: cands.len(),
                    taken: idx,
                    deviation: idx != 0,
                    holding,
                });
                idx
            };
            let (t, timeout) = cands[idx];
            if self.last_run.is_some() && self.last_run != Some(t) {
                self.out.context_switches += 1;
            }
            self.out.trace_hash = crate::rng::mix(self.out.trace_hash ^ ((t as u64) << 1 | u64::from(timeout)));
            self.step(t, timeout);
            if matches!(self.th[t].st, St::Running) {
                self.current = Some(t);
                self.last_run = Some(t);
                return;
            }
        }
    }
}

impl Sched {
    pub fn new() -> Arc<Sched> {
        Arc::new(Sched {
            st: Mutex::new(State {
                th: Vec::new(),
                current: None,
                last_run: None,
                locks: HashMap::new(),
                policy: Policy::Prefix(Vec::new()),
                eager_timeouts: false,
                abort: false,
                out: Outcome::default(),
            }),
            cv: Condvar::new(),
        })
    }

    fn wait_turn<'a>(&'a self, me: usize, mut g: std::sync::MutexGuard<'a, State>) -> std::sync::MutexGuard<'a, State> {
        loop {
            if g.abort {
                drop(g);
                std::panic::resume_unwind(Box::new(AbortToken));
            }
            if g.current == Some(me) {
                return g;
            }
            g = self.cv.wait(g).unwrap();
        }
    }

    /// run the operations concurrently under the given policy
    pub fn run(self: &Arc<Sched>, policy: Policy, eager_timeouts: bool, ops: Vec<Box<dyn FnOnce() -> String + Send>>) -> Outcome {
        let n = ops.len();
        {
            let mut g = self.st.lock().unwrap();
            *g = State {
                th: (0..n)
                    .map(|_| Th {
                        st: St::NotStarted,
                        held: Vec::new(),
                        decision: None,
                    })
                    .collect(),
                current: None,
                last_run: None,
                locks: HashMap::new(),
                policy,
                eager_timeouts,
                abort: false,
                out: Outcome::default(),
            };
        }
        let mut handles = Vec::new();
        for (i, op) in ops.into_iter().enumerate() {
            let s = self.clone();
            handles.push(
                std::thread::Builder::new()
                    .stack_size(8 * 1024 * 1024)
                    .spawn(move || {
                        TID.with(|t| t.set(Some(i)));
                        let r = catch_unwind(AssertUnwindSafe(|| {
                            {
                                let g = s.st.lock().unwrap();
                                let _g = s.wait_turn(i, g);
                            }
                            op()
                        }));
                        TID.with(|t| t.set(None));
                        let mut g = s.st.lock().unwrap();
                        g.th[i].st = St::Finished;
                        // a finished (or unwound) thread holds nothing
                        let held: Vec<Held> = std::mem::take(&mut g.th[i].held);
                        for h in held {
                            if let Some(l) = g.locks.get_mut(&h.lock) {
                                match h.mode {
                                    Mode::Write => {
                                        if l.writer == Some(i) {
                                            l.writer = None;
                                        }
                                    }
                                    Mode::Read => {
                                        if let Some(p) = l.readers.iter().position(|r| *r == i) {
                                            l.readers.remove(p);
                                        }
                                    }
                                }
                            }
                        }
                        if !g.abort {
                            g.pick();
                        }
                        s.cv.notify_all();
                        match r {
                            Ok(v) => Some(v),
                            Err(e) => {
                                if e.is::<AbortToken>() {
                                    None
                                } else {
                                    Some(format!("PANIC({})", crate::report::panic_message(&e)))
                                }
                            }
                        }
                    })
                    .expect("spawn"),
            );
        }
        {
            let mut g = self.st.lock().unwrap();
            g.pick();
            self.cv.notify_all();
        }
        let results: Vec<Option<String>> = handles.into_iter().map(|h| h.join().unwrap_or(Some("PANIC(join)".into()))).collect();
        let mut g = self.st.lock().unwrap();
        let mut out = std::mem::take(&mut g.out);
        out.results = results;
        out
    }
}

impl LockMonitor for Sched {
    fn acquire(&self, lock: u64, class: &'static str, mode: Mode, kind: Kind, site: &'static Location<'static>) -> Decision {
        let Some(me) = TID.with(|t| t.get()) else { return Decision::Passthrough };
        let mut g = self.st.lock().unwrap();
        if g.abort {
            return Decision::Passthrough;
        }
        g.out.lock_events += 1;
        let site = format!("{}:{}", site.file().rsplit('/').next().unwrap_or(""), site.line());
        g.th[me].st = St::Want(Want {
            lock,
            class,
            mode,
            kind,
            site,
            phase2: false,
        });
        g.th[me].decision = None;
        g.pick();
        self.cv.notify_all();
        let mut g = self.wait_turn(me, g);
        g.th[me].decision.take().unwrap_or(Decision::Passthrough)
    }

    fn acquired(&self, _lock: u64, _mode: Mode, _ok: bool) {}

    fn release(&self, lock: u64, mode: Mode) {
        let Some(me) = TID.with(|t| t.get()) else { return };
        let mut g = self.st.lock().unwrap();
        if let Some(p) = g.th[me].held.iter().rposition(|h| h.lock == lock && h.mode == mode) {
            g.th[me].held.remove(p);
        }
        if let Some(l) = g.locks.get_mut(&lock) {
            match mode {
                Mode::Write => {
                    if l.writer == Some(me) {
                        l.writer = None;
                    }
                }
                Mode::Read => {
                    if let Some(p) = l.readers.iter().position(|r| *r == me) {
                        l.readers.remove(p);
                    }
                }
            }
        }
    }

    fn mismatch(&self, _lock: u64, _mode: Mode) {
        if let Ok(mut g) = self.st.lock() {
            g.out.mismatches += 1;
        }
    }
}

/// signature of a deadlock by root cause, with functions instead of line numbers.
/// (1) a thread re-acquires a read lock it already holds while another thread is a pending writer of that lock
///     ("recursive read"): identified by the pair of acquisition sites of the reader, whoever the writer is;
/// (2) otherwise a lock order cycle: per thread the site where it holds a lock another thread wants and the site where it waits.
pub fn deadlock_signature(blocked: &[Blocked]) -> String {
    let mut recursive: Vec<String> = Vec::new();
    for b in blocked {
        if b.want.mode == Mode::Read {
            if let Some(h) = b.held.iter().find(|h| h.lock == b.want.lock && h.mode == Mode::Read) {
                recursive.push(format!("recursive-read {}: held in {} and requested again in {}", short_class(b.want.class), crate::srcindex::site_fn(&h.site), crate::srcindex::site_fn(&b.want.site)));
            }
        }
    }
    if !recursive.is_empty() {
        recursive.sort();
        recursive.dedup();
        return recursive.join(" || ");
    }
    let mut parts: Vec<String> = Vec::new();
    for b in blocked {
        let wanted_by_others: Vec<String> = b
            .held
            .iter()
            .filter(|h| blocked.iter().any(|o| o.tid != b.tid && o.want.lock == h.lock))
            .map(|h| format!("{:?} {}@{}", h.mode, short_class(h.class), crate::srcindex::site_fn(&h.site)))
            .collect();
        // a blocked thread that holds nothing anybody waits for is a bystander, not part of the cycle
        if wanted_by_others.is_empty() {
            continue;
        }
        let mut wanted_by_others = wanted_by_others;
        wanted_by_others.sort();
        wanted_by_others.dedup();
        let pending = if b.want.phase2 { " (pending writer)" } else { "" };
        parts.push(format!("holds [{}] wants {:?} {}@{}{pending}", wanted_by_others.join(", "), b.want.mode, short_class(b.want.class), crate::srcindex::site_fn(&b.want.site)));
    }
    parts.sort();
    format!("cycle: {}", parts.join(" || "))
}

pub fn describe_deadlock(blocked: &[Blocked]) -> String {
    let mut s = String::new();
    for b in blocked {
        s.push_str(&format!(
            "T{} blocked in {:?} {} at {} ({}){} holding [{}]; ",
            b.tid,
            b.want.mode,
            short_class(b.want.class),
            b.want.site,
            crate::srcindex::site_fn(&b.want.site),
            if b.want.phase2 { " as pending writer" } else { "" },
            b.held.iter().map(|h| format!("{:?} {}#{}@{}", h.mode, short_class(h.class), h.lock, h.site)).collect::<Vec<_>>().join(", ")
        ));
    }
    s
}
