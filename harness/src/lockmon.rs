//! single-thread lock monitor: detects lock requests that conflict with the requesting thread's own holdings
//! (a blocking one can never be granted = logical hang; a try/timed one is denied at once in virtual time)

use autosar_data::verif::{Decision, Kind, LockMonitor, Mode};
use std::cell::{Cell, RefCell};
use std::panic::Location;
use std::sync::Arc;

#[derive(Debug, Clone)]
pub struct SelfDeadlock {
    pub class: &'static str,
    pub mode: Mode,
    pub site: String,
    pub held: String,
}

thread_local! {
    static HELD: RefCell<Vec<(u64, Mode, &'static Location<'static>)>> = const { RefCell::new(Vec::new()) };
    static ACTIVE: Cell<bool> = const { Cell::new(false) };
    static EVENTS: Cell<u64> = const { Cell::new(0) };
    static SELF_DENIED: RefCell<Vec<String>> = const { RefCell::new(Vec::new()) };
    static PENDING: Cell<Option<(u64, Mode, &'static Location<'static>)>> = const { Cell::new(None) };
}

pub struct StMonitor;

pub fn site_str(site: &Location<'_>) -> String {
    format!("{}:{}", site.file().rsplit('/').next().unwrap_or(""), site.line())
}

fn short_class(class: &str) -> &str {
    let c = class.rsplit("::").next().unwrap_or(class);
    c.trim_end_matches('>')
}

impl LockMonitor for StMonitor {
    fn acquire(&self, lock: u64, class: &'static str, mode: Mode, kind: Kind, site: &'static Location<'static>) -> Decision {
        if !ACTIVE.with(|a| a.get()) {
            return Decision::Passthrough;
        }
        EVENTS.with(|e| e.set(e.get() + 1));
        let conflict = HELD.with(|h| {
            h.borrow()
                .iter()
                .find(|(l, m, _)| *l == lock && (*m == Mode::Write || mode == Mode::Write))
                .map(|(_, m, s)| format!("{m:?}@{}", site_str(s)))
        });
        if let Some(held) = conflict {
            match kind {
                Kind::Block => {
                    let info = SelfDeadlock {
                        class: short_class(class),
                        mode,
                        site: site_str(site),
                        held,
                    };
                    // unwinding releases every guard of this thread
                    std::panic::panic_any(info);
                }
                _ => {
                    SELF_DENIED.with(|d| {
                        let mut d = d.borrow_mut();
                        if d.len() < 64 {
                            d.push(format!("{mode:?} {} in {} denied by own {}", short_class(class), crate::srcindex::site_fn(&site_str(site)), crate::panicmon::held_fn(&held)));
                        }
                    });
                    PENDING.with(|p| p.set(None));
                    return Decision::Deny;
                }
            }
        }
        PENDING.with(|p| p.set(Some((lock, mode, site))));
        Decision::Passthrough
    }

    fn acquired(&self, lock: u64, mode: Mode, ok: bool) {
        if !ACTIVE.with(|a| a.get()) {
            return;
        }
        let pending = PENDING.with(|p| p.take());
        if ok {
            let site = pending.filter(|(l, m, _)| *l == lock && *m == mode).map_or(Location::caller(), |(_, _, s)| s);
            HELD.with(|h| h.borrow_mut().push((lock, mode, site)));
        }
    }

    fn release(&self, lock: u64, mode: Mode) {
        if !ACTIVE.with(|a| a.get()) {
            return;
        }
        HELD.with(|h| {
            let mut h = h.borrow_mut();
            if let Some(p) = h.iter().rposition(|(l, m, _)| *l == lock && *m == mode) {
                h.remove(p);
            }
        });
    }
}

pub fn install() {
    autosar_data::verif::set_monitor(Some(Arc::new(StMonitor)));
}

/// activate the monitor for the current thread
pub fn activate(on: bool) {
    ACTIVE.with(|a| a.set(on));
    HELD.with(|h| h.borrow_mut().clear());
}

pub fn events() -> u64 {
    EVENTS.with(|e| e.get())
}

pub fn held_count() -> usize {
    HELD.with(|h| h.borrow().len())
}

pub fn reset_held() {
    HELD.with(|h| h.borrow_mut().clear());
}

pub fn take_self_denied() -> Vec<String> {
    SELF_DENIED.with(|d| std::mem::take(&mut *d.borrow_mut()))
}
