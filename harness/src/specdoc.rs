//! whole-specification models: for a version, a model that contains every element type of that version
//! (the strategy of the crate's `generate_files` example, with the harness's own value generator)

use crate::rng::Rng;
use crate::values::valid_value;
use autosar_data::*;
use std::collections::HashSet;

fn create_sub_element_helper(elem: &Element, se_name: ElementName, named: bool, counter: &mut usize) -> Result<Element, AutosarDataError> {
    if named {
        let raw = format!("{}_{counter}", se_name.to_str().to_ascii_lowercase());
        let item_name: String = raw.chars().map(|c| if c == '-' { '_' } else { c }).collect();
        *counter += 1;
        elem.create_named_sub_element(se_name, &item_name)
    } else {
        elem.create_sub_element(se_name)
    }
}

fn create_value(elem: &Element, version: AutosarVersion, rng: &mut Rng) {
    if elem.content_type() == ContentType::CharacterData {
        if let Some(spec) = elem.element_type().chardata_spec() {
            if let Some(v) = valid_value(rng, spec, version) {
                let v = match v {
                    // keep the whole-specification documents free of edge whitespace and of non finite floats
                    CharacterData::String(s) => CharacterData::String(s.trim().to_string()),
                    CharacterData::Float(f) if !f.is_finite() => CharacterData::Float(1.5),
                    other => other,
                };
                let _ = elem.set_character_data(v);
            }
        }
    } else if elem.content_type() == ContentType::Mixed {
        let _ = elem.insert_character_content_item("xXxXx", 0);
    }
}

fn create_attributes(elem: &Element, version: AutosarVersion, rng: &mut Rng) {
    for (attr_name, spec, required) in elem.element_type().attribute_spec_iter() {
        if required || rng.chance(1, 6) {
            if let Some(v) = valid_value(rng, spec, version) {
                let v = match v {
                    CharacterData::String(s) => CharacterData::String(s.trim().to_string()),
                    CharacterData::Float(f) if !f.is_finite() => CharacterData::Float(1.5),
                    other => other,
                };
                let _ = elem.set_attribute(attr_name, v);
            }
        }
    }
}

fn create_sub_elements(elem: &Element, counter: &mut usize, completed: &mut HashSet<(ElementName, ElementName)>, version: AutosarVersion, rng: &mut Rng, depth: usize) -> (bool, bool) {
    create_value(elem, version, rng);
    if elem.element_name() != ElementName::Autosar {
        create_attributes(elem, version, rng);
    }
    let elem_name = elem.element_name();
    let mut any_created = false;
    let mut element_complete = true;
    if depth > 60 {
        return (false, false);
    }
    for ValidSubElementInfo { element_name: se_name, is_named, .. } in elem.list_valid_sub_elements() {
        if !completed.contains(&(elem_name, se_name)) {
            match create_sub_element_helper(elem, se_name, is_named, counter) {
                Ok(sub_elem) => {
                    any_created = true;
                    if is_named {
                        completed.insert((se_name, ElementName::ShortName));
                    }
                    completed.insert((elem_name, se_name));
                    let (se_complete, _) = create_sub_elements(&sub_elem, counter, completed, version, rng, depth + 1);
                    if !se_complete {
                        completed.remove(&(elem_name, se_name));
                        let mut guard = 0;
                        while let Ok(sub_elem) = create_sub_element_helper(elem, se_name, is_named, counter) {
                            guard += 1;
                            let (se_complete, se_any_created) = create_sub_elements(&sub_elem, counter, completed, version, rng, depth + 1);
                            if se_complete || guard > 50 {
                                break;
                            }
                            if !se_any_created {
                                element_complete = false;
                                let _ = elem.remove_sub_element(sub_elem);
                                break;
                            }
                        }
                    }
                }
                Err(_) => {
                    element_complete = false;
                }
            }
        }
    }
    (element_complete, any_created)
}

/// a model with one file of `version` that contains every element type of that version at least once
pub fn whole_spec_model(version: AutosarVersion, seed: u64) -> (AutosarModel, ArxmlFile) {
    let mut rng = Rng::derive(seed, "specdoc", version as u64);
    let model = AutosarModel::new();
    let file = model.create_file(format!("{}.arxml", version.filename()), version).expect("create_file");
    let mut completed = HashSet::new();
    let mut counter = 1;
    create_sub_elements(&model.root_element(), &mut counter, &mut completed, version, &mut rng, 0);
    (model, file)
}

pub fn header(version: AutosarVersion) -> String {
    format!(
        "<?xml version=\"1.0\" encoding=\"utf-8\"?>\n<AUTOSAR xsi:schemaLocation=\"http://autosar.org/schema/r4.0 {}\" xmlns=\"http://autosar.org/schema/r4.0\" xmlns:xsi=\"http://www.w3.org/2001/XMLSchema-instance\">",
        version.filename()
    )
}
