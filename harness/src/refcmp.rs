//! typed comparison of a loaded model with the independent reading of the same document

use crate::refxml::*;
use crate::walk::cdata_str;
use autosar_data::*;
use autosar_data_specification::{CharacterDataSpec, ElementType};
use std::str::FromStr;

#[derive(Clone, Debug)]
pub struct Disc {
    pub kind: String,
    pub path: String,
    pub line_start: usize,
    pub line_end: usize,
    pub detail: String,
}

pub fn spec_class(spec: &CharacterDataSpec) -> &'static str {
    match spec {
        CharacterDataSpec::Enum { .. } => "enum",
        CharacterDataSpec::Pattern { .. } => "pattern",
        CharacterDataSpec::String { preserve_whitespace: true, .. } => "string-preserve",
        CharacterDataSpec::String { .. } => "string",
        CharacterDataSpec::UnsignedInteger => "uint",
        CharacterDataSpec::Float => "float",
    }
}

pub fn is_ws(c: char) -> bool {
    matches!(c, ' ' | '\t' | '\n' | '\x0C' | '\r')
}

/// the value the document text denotes for a specification type (None: the text is outside the value space)
pub fn expected_value(spec: &CharacterDataSpec, text: &str) -> Option<CharacterData> {
    let trimmed = text.trim_matches(is_ws);
    match spec {
        CharacterDataSpec::Enum { items } => {
            let item = EnumItem::from_str(trimmed).ok()?;
            items.iter().any(|(i, _)| *i == item).then_some(CharacterData::Enum(item))
        }
        CharacterDataSpec::Pattern { .. } => Some(CharacterData::String(trimmed.to_string())),
        CharacterDataSpec::String { preserve_whitespace, .. } => Some(CharacterData::String(if *preserve_whitespace { text.to_string() } else { trimmed.to_string() })),
        CharacterDataSpec::UnsignedInteger => {
            let digits = trimmed.strip_prefix('+').unwrap_or(trimmed);
            if digits.is_empty() || !digits.bytes().all(|b| b.is_ascii_digit()) {
                return None;
            }
            let mut v: u64 = 0;
            for b in digits.bytes() {
                v = v.checked_mul(10)?.checked_add(u64::from(b - b'0'))?;
            }
            Some(CharacterData::UnsignedInteger(v))
        }
        CharacterDataSpec::Float => trimmed.parse::<f64>().ok().map(CharacterData::Float),
    }
}

fn same_value(a: &CharacterData, b: &CharacterData) -> bool {
    match (a, b) {
        (CharacterData::Float(x), CharacterData::Float(y)) => x.to_bits() == y.to_bits() || (x.is_nan() && y.is_nan()),
        _ => a == b,
    }
}

pub fn child_type(parent: ElementType, name: ElementName, version: AutosarVersion) -> Option<ElementType> {
    parent.find_sub_element(name, version as u32).or_else(|| parent.find_sub_element(name, u32::MAX)).map(|(t, _)| t)
}

pub struct Cmp<'a> {
    pub version: AutosarVersion,
    pub out: Vec<Disc>,
    pub elements: u64,
    pub values: u64,
    pub attributes: u64,
    pub comments: u64,
    pub warnings: &'a [(usize, String)],
}

impl Cmp<'_> {
    fn disc(&mut self, kind: &str, path: &str, l0: usize, l1: usize, detail: String) {
        if self.out.len() < 40 {
            self.out.push(Disc {
                kind: kind.to_string(),
                path: path.to_string(),
                line_start: l0,
                line_end: l1,
                detail,
            });
        }
    }

    pub fn node(&mut self, e: &Element, r: &RefNode, etype: ElementType, path: &str) {
        self.elements += 1;
        let path = format!("{path}/{}", r.name);
        if e.element_name().to_str() != r.name {
            self.disc("element-name", &path, r.line_start, r.line_end, format!("model has {}, document has {}", e.element_name(), r.name));
            return;
        }
        if e.element_type() != etype {
            self.disc("element-type", &path, r.tag_line_start, r.tag_line_end, format!("model element type {:?} differs from the type derived from the specification {:?}", e.element_type(), etype));
        }
        // comment
        if r.comment.is_some() {
            self.comments += 1;
        }
        if e.comment() != r.comment {
            self.disc("comment", &path, r.tag_line_start.saturating_sub(3), r.tag_line_end, format!("model comment {:?}, document {:?}", e.comment(), r.comment));
        }
        // attributes: expected list in document order
        let got: Vec<Attribute> = e.attributes().collect();
        let mut gi = 0;
        for (name, text) in &r.attrs {
            self.attributes += 1;
            let aspec = AttributeName::from_str(name).ok().and_then(|an| etype.find_attribute_spec(an));
            let aclass = aspec.as_ref().map_or("?", |s| spec_class(s.spec));
            let expected = AttributeName::from_str(name).ok().and_then(|an| etype.find_attribute_spec(an).map(|spec| (an, expected_value(spec.spec, text))));
            match expected {
                Some((an, Some(val))) => {
                    if gi < got.len() && got[gi].attrname == an && same_value(&got[gi].content, &val) {
                        gi += 1;
                    } else if gi < got.len() && got[gi].attrname == an {
                        self.disc(&format!("attribute-value:{aclass}"), &path, r.tag_line_start, r.tag_line_end, format!("attribute {name}: model {}, document denotes {}", cdata_str(&got[gi].content), cdata_str(&val)));
                        gi += 1;
                    } else {
                        self.disc("attribute-missing", &path, r.tag_line_start, r.tag_line_end, format!("attribute {name}={text:?} is not at this place in the model (model has {:?})", got.iter().map(|a| a.attrname.to_str()).collect::<Vec<_>>()));
                    }
                }
                Some((an, None)) => {
                    // text outside of the value space: a loader that keeps going must have said so
                    if gi < got.len() && got[gi].attrname == an {
                        gi += 1;
                    }
                    self.disc("attribute-value-invalid", &path, r.tag_line_start, r.tag_line_end, format!("attribute {name}={text:?} is outside of its value space"));
                }
                None => self.disc("attribute-unknown", &path, r.tag_line_start, r.tag_line_end, format!("attribute {name} is not specified for {}", r.name)),
            }
        }
        if gi < got.len() {
            self.disc("attribute-extra", &path, r.tag_line_start, r.tag_line_end, format!("model has attribute {} which the document does not have at this place", got[gi].attrname.to_str()));
        }
        // content
        let content: Vec<ElementContent> = e.content().collect();
        let mut ci = 0;
        let spec = etype.chardata_spec();
        for item in &r.items {
            match item {
                RefItem::Elem(rc) => {
                    let sub_type = ElementName::from_str(&rc.name).ok().and_then(|n| child_type(etype, n, self.version));
                    match (content.get(ci), sub_type) {
                        (Some(ElementContent::Element(ce)), Some(st)) if ce.element_name().to_str() == rc.name => {
                            self.node(ce, rc, st, &path);
                            ci += 1;
                        }
                        (_, None) => self.disc("element-unknown", &path, rc.line_start, rc.line_end, format!("{} is not a sub element of {} in any version", rc.name, r.name)),
                        (other, Some(_)) => {
                            self.disc(
                                "element-missing",
                                &path,
                                rc.line_start,
                                rc.line_end,
                                format!("document has <{}> here, model has {:?}", rc.name, other.map(|c| match c {
                                    ElementContent::Element(x) => x.element_name().to_str().to_string(),
                                    ElementContent::CharacterData(cd) => cdata_str(cd),
                                })),
                            );
                        }
                    }
                }
                RefItem::Text(text, tl0, tl1) => {
                    self.values += 1;
                    // a deviation of character data may be caused (and reported) anywhere in the element that contains it
                    let (l0, l1) = (&r.line_start.min(*tl0), &r.line_end.max(*tl1));
                    match spec {
                        Some(spec) => match expected_value(spec, text) {
                            Some(val) => match content.get(ci) {
                                Some(ElementContent::CharacterData(cd)) if same_value(cd, &val) => ci += 1,
                                Some(ElementContent::CharacterData(cd)) => {
                                    self.disc(&format!("value:{}", spec_class(spec)), &path, *l0, *l1, format!("model {}, document denotes {}", cdata_str(cd), cdata_str(&val)));
                                    ci += 1;
                                }
                                _ => self.disc("value-missing", &path, *l0, *l1, format!("document text {text:?} has no counterpart in the model")),
                            },
                            None => {
                                if let Some(ElementContent::CharacterData(_)) = content.get(ci) {
                                    ci += 1;
                                }
                                self.disc("value-invalid", &path, *l0, *l1, format!("text {text:?} is outside of the value space"));
                            }
                        },
                        None => self.disc("text-forbidden", &path, *l0, *l1, format!("character content {text:?} in an element that has none")),
                    }
                }
            }
        }
        if ci < content.len() {
            self.disc("content-extra", &path, r.line_start, r.line_end, format!("the model has {} content item(s) more than the document", content.len() - ci));
        }
    }

    /// discrepancies that are not covered by a warning located inside the line span of the deviating token
    pub fn uncovered(&self) -> Vec<&Disc> {
        self.out.iter().filter(|d| !self.warnings.iter().any(|(line, _)| *line >= d.line_start && *line <= d.line_end)).collect()
    }
}

pub fn warning_lines(warnings: &[AutosarDataError]) -> Vec<(usize, String)> {
    warnings
        .iter()
        .map(|w| match w {
            AutosarDataError::ParserError { line, .. } | AutosarDataError::LexerError { line, .. } => (*line, crate::hist::err_variant(w)),
            other => (0, crate::hist::err_variant(other)),
        })
        .collect()
}

pub fn file_version_of(root: &RefNode) -> Option<AutosarVersion> {
    let schema = root.attrs.iter().find(|(k, _)| k == "xsi:schemaLocation")?;
    let xsd = schema.1.split(' ').nth(1)?;
    AutosarVersion::from_str(xsd).ok()
}
