//! C09 — merging files keeps each file's content and yields their union in any load order (DOC engine)

use crate::docgen::*;
use crate::histprops2::canon;
use crate::json::{show_bytes, J};
use crate::refcmp::child_type;
use crate::refxml::{self, RefDoc, RefItem, RefNode, Style};
use crate::report::{cpu_count, run_shards, Report};
use crate::rng::{hash_str, Rng};
use crate::walk::Tree;
use autosar_data::*;
use autosar_data_specification::ElementType;
use std::str::FromStr;

/// which generator freedoms are used; the unsafe ones trigger known findings and are exercised by witnesses only
#[derive(Clone, Copy)]
pub struct Freedom {
    /// files list siblings of different kinds in different relative order
    pub shuffle_kinds: bool,
    /// non-identifiable repeated siblings (without DEFINITION-REF) are distributed over files
    pub split_keyless: bool,
    /// the master lists package level elements of different kinds in arbitrary (not specification) order
    pub unsorted_kinds: bool,
}

fn viol(rep: &mut Report, rule: &str, pred: &str, detail: String, texts: &[String]) {
    let mut d = detail;
    for (i, t) in texts.iter().enumerate().take(4) {
        d.push_str(&format!("\n  file {i}: {}", show_bytes(t.as_bytes(), 700)));
    }
    // the three witness generators each stand for one known limitation of the merge: one signature per generator,
    // whatever the manifestation (duplicates, lost or misplaced content, rejection); panics keep their own signature
    let witness = ["kinds-in-different-order", "keyless-siblings-split", "kinds-not-in-specification-order"].iter().find(|l| pred.ends_with(*l));
    let sig = match witness {
        Some(label) if rule != "merge/panics" => format!("C09:merge/wrong-result:{label}"),
        _ => format!("C09:{rule}:{pred}"),
    };
    rep.violation(rule, &sig, &d, J::obj().with("engine", J::s("doc")).with("files", J::arr_of_str(texts.iter().cloned())));
}

fn is_identifiable(n: &RefNode) -> bool {
    matches!(n.items.first(), Some(RefItem::Elem(c)) if c.name == "SHORT-NAME")
}

fn has_defref(n: &RefNode) -> bool {
    n.items.iter().any(|i| matches!(i, RefItem::Elem(c) if c.name == "DEFINITION-REF"))
}

/// assignment of file subsets (bit masks) to the nodes of the master, in pre-order
fn assign(rng: &mut Rng, n: &RefNode, etype: ElementType, version: AutosarVersion, files: u32, free: Freedom, out: &mut Vec<u32>, split_points: &mut u64, single_splits: &mut u64) {
    out.push(files);
    let splittable = etype.splittable_in(version) && files.count_ones() > 1;
    for item in &n.items {
        if let RefItem::Elem(c) = item {
            let ct = ElementName::from_str(&c.name).ok().and_then(|cn| child_type(etype, cn, version));
            let mut sub = files;
            let keyed = is_identifiable(c) || has_defref(c);
            // a child without key that can occur only once is identified by its element name: it can be given to a subset of the
            // files as well (e.g. ADMIN-DATA/LANGUAGE, CATEGORY below a splittable element)
            let single = !keyed
                && n.items.iter().filter(|i| matches!(i, RefItem::Elem(x) if x.name == c.name)).count() == 1
                && ElementName::from_str(&c.name).ok().and_then(|cn| etype.find_sub_element(cn, version as u32)).is_some_and(|(_, idx)| {
                    etype.get_sub_element_multiplicity(&idx) != Some(autosar_data_specification::ElementMultiplicity::Any) && etype.get_sub_element_container_mode(&idx) == autosar_data_specification::ContentMode::Sequence
                });
            if splittable && c.name != "SHORT-NAME" && (keyed || free.split_keyless || (single && rng.chance(1, 2))) && rng.chance(2, 3) {
                if single {
                    *single_splits += 1;
                }
                // a non-empty subset
                loop {
                    let pick = (rng.next() as u32) & files;
                    if pick != 0 {
                        sub = pick;
                        break;
                    }
                }
                if sub != files {
                    *split_points += 1;
                }
            }
            match ct {
                Some(ct) => assign(rng, c, ct, version, sub, free, out, split_points, single_splits),
                None => assign_all(c, sub, out),
            }
        }
    }
}

fn assign_all(n: &RefNode, files: u32, out: &mut Vec<u32>) {
    out.push(files);
    for item in &n.items {
        if let RefItem::Elem(c) = item {
            assign_all(c, files, out);
        }
    }
}

/// expected attribution: (element name, AUTOSAR path) of every identifiable node of the master -> bit mask of the files that contain it
fn expected_attribution(n: &RefNode, assignment: &[u32], idx: &mut usize, path: &str, out: &mut std::collections::BTreeMap<(String, String), u32>) {
    let mine = assignment[*idx];
    *idx += 1;
    let mut here = path.to_string();
    if is_identifiable(n) {
        here = format!("{path}/{}", short_name_of(n));
        out.insert((n.name.clone(), here.clone()), mine);
    }
    for item in &n.items {
        if let RefItem::Elem(c) = item {
            expected_attribution(c, assignment, idx, &here, out);
        }
    }
}

/// projection of the master on file f, with sibling order varied where permitted
fn project(rng: &mut Rng, n: &RefNode, assignment: &[u32], idx: &mut usize, f: u32, free: Freedom) -> Option<RefNode> {
    let mine = assignment[*idx];
    *idx += 1;
    let mut out = n.clone();
    out.items.clear();
    let has_text = n.items.iter().any(|i| matches!(i, RefItem::Text(..)));
    let mut kids: Vec<RefNode> = Vec::new();
    let mut mixed_items: Vec<RefItem> = Vec::new();
    for item in &n.items {
        match item {
            RefItem::Elem(c) => {
                if let Some(p) = project(rng, c, assignment, idx, f, free) {
                    if has_text {
                        mixed_items.push(RefItem::Elem(p));
                    } else {
                        kids.push(p);
                    }
                }
            }
            RefItem::Text(..) => mixed_items.push(item.clone()),
        }
    }
    if mine & (1 << f) == 0 {
        return None;
    }
    if has_text {
        // character or mixed content keeps its order
        out.items = mixed_items;
        return Some(out);
    }
    // permitted reorderings: runs of identifiable siblings of the same kind
    let mut i = 0;
    while i < kids.len() {
        let mut j = i + 1;
        while j < kids.len() && kids[j].name == kids[i].name && kids[i].name != "SHORT-NAME" {
            j += 1;
        }
        if j - i > 1 && kids[i..j].iter().all(|k| is_identifiable(k) || has_defref(k)) && rng.chance(1, 2) {
            rng.shuffle(&mut kids[i..j]);
        }
        i = j;
    }
    if free.shuffle_kinds && kids.len() > 2 && n.name == "ELEMENTS" && rng.chance(1, 2) {
        rng.shuffle(&mut kids);
    }
    out.items = kids.into_iter().map(RefItem::Elem).collect();
    Some(out)
}

/// a master document: packages with shared names, elements from the whole-specification corpus, BSW values
fn master(rng: &mut Rng, seed: u64, version: AutosarVersion, sorted_kinds: bool) -> RefDoc {
    let sd = spec_doc(version, seed);
    let mut used = std::collections::HashSet::new();
    let mut pkgs = Vec::new();
    let n_pkgs = rng.range(1, 4);
    for p in 0..n_pkgs {
        let mut elements = Vec::new();
        for _ in 0..rng.range(0, 5) {
            let c = rng.pick(&sd.chunks).clone();
            if used.insert(short_name_of(&c)) {
                elements.push(c);
            }
        }
        // a few plain elements with simple names, several of the same kind
        for k in 0..rng.range(0, 4) {
            let kind = *rng.pick(&["I-SIGNAL", "SYSTEM", "ECU-INSTANCE"]);
            elements.push(elem_node(kind, vec![text_node("SHORT-NAME", &format!("e{p}_{k}"))]));
        }
        if sorted_kinds {
            // the merge pairs siblings of different kinds by their position in the specification: list kinds in that order
            let et = elements_type(version);
            elements.sort_by_key(|e| ElementName::from_str(&e.name).ok().and_then(|n| et.find_sub_element(n, version as u32)).map(|(_, idx)| idx).unwrap_or_default());
        }
        let mut pkg_items = vec![text_node("SHORT-NAME", &format!("pkg{p}"))];
        if !elements.is_empty() {
            pkg_items.push(elem_node("ELEMENTS", elements));
        }
        if rng.chance(1, 3) {
            pkg_items.push(elem_node("AR-PACKAGES", vec![elem_node("AR-PACKAGE", vec![text_node("SHORT-NAME", "sub")])]));
        }
        pkgs.push(elem_node("AR-PACKAGE", pkg_items));
    }
    let mut root = elem_node("AUTOSAR", vec![elem_node("AR-PACKAGES", pkgs)]);
    root.attrs = root_attrs(version);
    RefDoc {
        bom: false,
        standalone: None,
        root,
    }
}

fn load_alone(text: &str) -> Result<AutosarModel, AutosarDataError> {
    let m = AutosarModel::new();
    m.load_buffer(text.as_bytes(), "alone.arxml", true).map(|_| m)
}

fn canon_of(model: &AutosarModel) -> String {
    let t = Tree::of_model(model);
    // the attributes of the root element hold the schema location of the file that was serialized last: compare below the root
    let mut parts: Vec<String> = t.nodes[0].children.iter().map(|c| canon(&t, *c)).collect();
    parts.sort();
    parts.join("|")
}

fn permutations(k: usize) -> Vec<Vec<usize>> {
    fn rec(cur: &mut Vec<usize>, used: &mut Vec<bool>, k: usize, out: &mut Vec<Vec<usize>>) {
        if cur.len() == k {
            out.push(cur.clone());
            return;
        }
        for i in 0..k {
            if !used[i] {
                used[i] = true;
                cur.push(i);
                rec(cur, used, k, out);
                cur.pop();
                used[i] = false;
            }
        }
    }
    let mut out = Vec::new();
    rec(&mut Vec::new(), &mut vec![false; k], k, &mut out);
    out
}

/// one split-and-merge case; returns false if the case had to be discarded
pub fn case(rep: &mut Report, rng: &mut Rng, seed: u64, free: Freedom, label: &str) -> bool {
    let version = *rng.pick(&crate::specwalk::ALL_VERSIONS[3..]);
    let m = master(rng, seed, version, !free.unsorted_kinds);
    let k = rng.range(2, 4);
    let all: u32 = (1 << k) - 1;
    let mut assignment = Vec::new();
    let mut split_points = 0;
    let mut single_splits = 0;
    assign(rng, &m.root, ElementType::ROOT, version, all, free, &mut assignment, &mut split_points, &mut single_splits);
    rep.count("split_points.single_occurrence_children_without_key", single_splits);
    let master_text = String::from_utf8(refxml::render(rng, Style::plain(), &m)).unwrap_or_default();
    let Ok(master_model) = load_alone(&master_text) else {
        rep.count("masters_not_strictly_loadable(discarded)", 1);
        return false;
    };
    let master_canon = canon_of(&master_model);
    let mut texts = Vec::new();
    let mut alone_canon = Vec::new();
    // every third case tries to give some of the files an older version
    let vi = crate::specwalk::version_index(version);
    let older = if label == "safe" && rng.chance(1, 3) && vi > 0 { Some(crate::specwalk::ALL_VERSIONS[rng.below(vi)]) } else { None };
    let mut relabelled_files = 0;
    for f in 0..k {
        let mut idx = 0;
        let Some(p) = project(rng, &m.root, &assignment, &mut idx, f as u32, free) else { return false };
        let doc = RefDoc { bom: false, standalone: None, root: p };
        let text = String::from_utf8(refxml::render(rng, Style::plain(), &doc)).unwrap_or_default();
        let mut text = text;
        // files of different versions: a partial view that is also valid in an older version may carry that version
        if let Some(low) = older {
            if rng.chance(1, 2) {
                let relabelled = text.replacen(version.filename(), low.filename(), 1);
                if load_alone(&relabelled).is_ok() {
                    text = relabelled;
                    relabelled_files += 1;
                }
            }
        }
        match load_alone(&text) {
            Ok(am) => alone_canon.push(canon_of(&am)),
            Err(_) => {
                rep.count("projections_not_strictly_loadable(discarded)", 1);
                return false;
            }
        }
        texts.push(text);
    }
    let mixed_label;
    let label = if relabelled_files > 0 && relabelled_files < k {
        rep.count("cases.files_of_different_versions", 1);
        mixed_label = format!("{label}+files-of-different-versions");
        mixed_label.as_str()
    } else {
        label
    };
    rep.count("split_points", split_points);
    rep.count(&format!("cases.{label}"), 1);
    rep.count(&format!("cases.files_{k}"), 1);
    let mut first_canon: Option<String> = None;
    for order in permutations(k) {
        rep.evaluations += 1;
        rep.distinct.insert(hash_str(&texts.join("\u{1}")) ^ hash_str(&format!("{order:?}")));
        let model = AutosarModel::new();
        let mut files: Vec<Option<ArxmlFile>> = vec![None; k];
        let mut failed = false;
        for f in &order {
            match crate::panicmon::catch(|| model.load_buffer(texts[*f].as_bytes(), format!("f{f}.arxml"), true)) {
                Ok(Ok((file, _))) => files[*f] = Some(file),
                Ok(Err(e)) => {
                    viol(rep, "merge/rejected", &format!("{}:{label}", crate::hist::err_variant(&e)), format!("loading the partial views of one model in the order {order:?} fails at f{f}: {e}"), &texts);
                    failed = true;
                    break;
                }
                Err(ab) => {
                    viol(rep, "merge/panics", &format!("{}:{label}", ab.signature()), ab.describe(), &texts);
                    failed = true;
                    break;
                }
            }
        }
        if failed {
            continue;
        }
        rep.count("merges_completed", 1);
        let merged = canon_of(&model);
        if merged != master_canon {
            let t = Tree::of_model(&model);
            let mt = Tree::of_model(&master_model);
            let what = if t.nodes.len() > mt.nodes.len() {
                "elements-duplicated"
            } else if t.nodes.len() < mt.nodes.len() {
                "elements-lost"
            } else {
                "content-differs"
            };
            let at = merged.bytes().zip(master_canon.bytes()).position(|(a, b)| a != b).unwrap_or(0);
            let cut = |s: &str| -> String { s.chars().skip(at.saturating_sub(120)).take(300).collect() };
            viol(rep, "merge/union-differs-from-master", &format!("{what}:{label}"), format!("load order {order:?}: the merged model has {} elements, the master {}; canonical forms differ near: merged …{}… / master …{}…", t.nodes.len(), mt.nodes.len(), cut(&merged), cut(&master_canon)), &texts);
            continue;
        }
        match &first_canon {
            None => first_canon = Some(merged),
            Some(c) if *c != merged => viol(rep, "merge/depends-on-load-order", label, format!("load order {order:?} gives another model than the first order"), &texts),
            _ => {}
        }
        // attribution as reported by the API: every identifiable element is in exactly the files whose text contained it
        {
            let mut expected = std::collections::BTreeMap::new();
            let mut idx = 0;
            expected_attribution(&m.root, &assignment, &mut idx, "", &mut expected);
            let mut wrong = Vec::new();
            for (path, weak) in model.identifiable_elements() {
                let Some(e) = weak.upgrade() else { continue };
                let Some(want) = expected.get(&(e.element_name().to_string(), path.clone())) else { continue };
                rep.count("attributions_checked", 1);
                match e.file_membership() {
                    Ok((_, set)) => {
                        let mut got = 0u32;
                        let mut foreign = false;
                        for w in &set {
                            match files.iter().position(|f| f.as_ref().is_some_and(|f| f.downgrade() == *w)) {
                                Some(i) => got |= 1 << i,
                                None => foreign = true,
                            }
                        }
                        if got != *want || foreign {
                            wrong.push(format!("{path}: reported in files {got:#b}{}, its text is in files {want:#b}", if foreign { " + an unknown file" } else { "" }));
                        }
                    }
                    Err(e) => wrong.push(format!("{path}: file_membership fails: {e}")),
                }
            }
            if !wrong.is_empty() {
                viol(rep, "merge/wrong-attribution", label, format!("load order {order:?} (bit i = file f<i>): {}", wrong.iter().take(4).cloned().collect::<Vec<_>>().join("; ")), &texts);
            }
        }
        // per file text == projection
        for f in 0..k {
            let Some(file) = &files[f] else { continue };
            match file.serialize().map_err(|e| e.to_string()).and_then(|t| load_alone(&t).map_err(|e| e.to_string())) {
                Ok(fm) => {
                    if canon_of(&fm) != alone_canon[f] {
                        let t1 = Tree::of_model(&fm).nodes.len();
                        viol(rep, "merge/file-content-changed", label, format!("load order {order:?}: file f{f} serialized from the merged model ({t1} elements) differs from the file loaded on its own"), &texts);
                    }
                }
                Err(e) => viol(rep, "merge/file-not-loadable-on-its-own", label, format!("load order {order:?}: file f{f} serialized from the merged model: {e}"), &texts),
            }
        }
    }
    true
}

/// documented rejections
fn negative(rep: &mut Report, rng: &mut Rng) {
    let v = AutosarVersion::Autosar_00050;
    let hdr = crate::specdoc::header(v);
    let n1 = *rng.pick(&["x", "a1", "Sig"]);
    let a = format!("{hdr}<AR-PACKAGES><AR-PACKAGE><SHORT-NAME>p</SHORT-NAME><ELEMENTS><I-SIGNAL><SHORT-NAME>{n1}</SHORT-NAME></I-SIGNAL></ELEMENTS></AR-PACKAGE></AR-PACKAGES></AUTOSAR>");
    let b = format!("{hdr}<AR-PACKAGES><AR-PACKAGE><SHORT-NAME>p</SHORT-NAME><ELEMENTS><SYSTEM><SHORT-NAME>{n1}</SHORT-NAME></SYSTEM></ELEMENTS></AR-PACKAGE></AR-PACKAGES></AUTOSAR>");
    for (x, y) in [(&a, &b), (&b, &a)] {
        rep.evaluations += 1;
        rep.count("negative_cases", 1);
        let m = AutosarModel::new();
        let _ = m.load_buffer(x.as_bytes(), "x.arxml", true);
        let before = crate::walk::dump_full(&m);
        match m.load_buffer(y.as_bytes(), "y.arxml", true) {
            Err(AutosarDataError::OverlappingDataError { .. }) => {
                if crate::walk::dump_full(&m) != before {
                    viol(rep, "conflict/rejected-but-model-changed", "overlap", "the model changed".into(), &[x.clone(), y.clone()]);
                }
            }
            other => viol(rep, "conflict/not-rejected", "overlap", format!("two files define the path /p/{n1} with different kinds of elements; load_buffer returns {:?}", other.map(|_| "Ok").map_err(|e| e.to_string())), &[x.clone(), y.clone()]),
        }
    }
}

pub fn run(rep: &mut Report, tier: &str) {
    crate::panicmon::install();
    let thorough = tier == "thorough";
    let seed = rep.seed;
    rep.rule = "a random master document (1-4 packages, package level elements of all kinds from the whole-specification corpus, runs of same-kind elements, nested packages) is split into 2-4 partial views at every splittable element (children with SHORT-NAME or DEFINITION-REF get random non-empty file subsets), same-kind identifiable sibling runs are shuffled per file; all k! load orders: union == master, order independence, every file serialized from the merged model == the file loaded on its own. Distinct by (file texts, load order); non-trivial = cases with at least one split point".into();
    rep.assumptions.push("files that list siblings of different kinds in different relative order, or that distribute non-identifiable siblings without DEFINITION-REF over files, are exercised separately: both are known findings".into());
    let n = if thorough { 40_000 } else { 4_000 };
    let shards = 32;
    let per = n / shards;
    run_shards(rep, shards, cpu_count(), 64, |shard, sub| {
        for j in 0..per {
            let c = (shard * per + j) as u64;
            let mut rng = Rng::derive(seed, "c09", c);
            case(sub, &mut rng, seed, Freedom { shuffle_kinds: false, split_keyless: false, unsorted_kinds: false }, "safe");
            if j % 8 == 0 {
                let mut rng = Rng::derive(seed, "c09w", c);
                case(sub, &mut rng, seed, Freedom { shuffle_kinds: true, split_keyless: false, unsorted_kinds: false }, "kinds-in-different-order");
                let mut rng = Rng::derive(seed, "c09k", c);
                case(sub, &mut rng, seed, Freedom { shuffle_kinds: false, split_keyless: true, unsorted_kinds: false }, "keyless-siblings-split");
                let mut rng = Rng::derive(seed, "c09u", c);
                case(sub, &mut rng, seed, Freedom { shuffle_kinds: false, split_keyless: false, unsorted_kinds: true }, "kinds-not-in-specification-order");
                negative(sub, &mut rng);
            }
        }
    });
    rep.sample(J::obj().with("note", J::s("see replays of known findings for full file texts")).with("cases", J::Int(rep.get("cases.safe") as i64)));
    rep.require("cases.safe", (n / 2) as u64);
    rep.require("merges_completed", n as u64);
    rep.require("split_points", n as u64);
    rep.require("attributions_checked", 10 * n as u64);
    rep.require("cases.files_of_different_versions", (n / 40) as u64);
    rep.require("negative_cases", 10);
}
