use vh::report::Report;

fn main() {
    let args: Vec<String> = std::env::args().collect();
    if args.len() < 3 {
        eprintln!("usage: vh <property|cmd> <quick|thorough|...> [options]");
        std::process::exit(2);
    }
    let prop = args[1].to_uppercase();
    let tier = args[2].clone();
    let seed: u64 = std::env::var("VERIF_SEED").ok().and_then(|s| s.parse().ok()).unwrap_or(1);
    let rest: Vec<String> = args[3..].to_vec();
    let code = dispatch(&prop, &tier, seed, &rest);
    std::process::exit(code);
}

fn dispatch(prop: &str, tier: &str, seed: u64, rest: &[String]) -> i32 {
    let ev_tier = if tier == "thorough" { "thorough" } else { "quick" };
    let hist = ["C03", "C04", "C05", "C06", "C10", "C11", "C12", "C13", "C14"].contains(&prop);
    if tier == "replay" && !hist && prop.starts_with('C') && prop.len() == 3 {
        return vh::report::generic_replay(prop, rest.first().map_or("", |s| s.as_str()));
    }
    match prop {
        "C18" => {
            let mut rep = Report::new("C18", ev_tier, seed);
            let miri = rest.iter().any(|a| a == "--miri") || cfg!(miri);
            vh::panicmon::install();
            vh::c18::run(&mut rep, tier, miri);
            if tier == "thorough" && !miri {
                vh::san::miri_addon(&mut rep, vh::san::jobs("lookup", seed..seed + 8, &[]));
            }
            if miri {
                // a miri run only reports; the evidence file belongs to the native run
                let bad = rep.violations.len();
                println!("C18 miri-subset: evaluations={} violations={}", rep.evaluations, bad);
                return if bad == 0 { 0 } else { 1 };
            }
            rep.finish()
        }
        "C01" => {
            let mut rep = Report::new("C01", ev_tier, seed);
            vh::c01::run(&mut rep, tier);
            if tier == "thorough" {
                vh::san::asan_addon(&mut rep);
            }
            rep.finish()
        }
        "C08" => {
            let mut rep = Report::new("C08", ev_tier, seed);
            vh::c08::run(&mut rep, tier);
            if tier == "thorough" {
                vh::san::asan_addon(&mut rep);
            }
            rep.finish()
        }
        "C17" => {
            let mut rep = Report::new("C17", ev_tier, seed);
            vh::c17::run(&mut rep, tier);
            if tier == "thorough" {
                vh::san::asan_addon(&mut rep);
            }
            rep.finish()
        }
        "C02" => {
            let mut rep = Report::new("C02", ev_tier, seed);
            vh::c02::run(&mut rep, tier);
            if tier == "thorough" {
                vh::san::asan_addon(&mut rep);
                vh::san::miri_addon(&mut rep, vh::san::jobs("load", seed..seed + 12, &[]));
            }
            rep.finish()
        }
        "SAN-SELFTEST" => vh::san::selftest(),
        "MIRI" => vh::san::part_main(tier, rest.first().and_then(|s| s.parse().ok()).unwrap_or(1), rest.get(1..).unwrap_or(&[])),
        "C02-WORKER" => vh::c02::worker_main(tier.parse().unwrap_or(0), rest[0].parse().unwrap_or(1), &rest[1], rest[2].parse().unwrap_or(1)),
        "C02-SINGLE" => vh::c02::single_main(tier),
        "C02-NEST" => vh::c02::nest_main(tier.parse().unwrap_or(10), rest.first().map_or("packages", |s| s.as_str())),
        "C09" => {
            let mut rep = Report::new("C09", ev_tier, seed);
            vh::c09::run(&mut rep, tier);
            if tier == "thorough" {
                vh::san::asan_addon(&mut rep);
            }
            rep.finish()
        }
        "C07" => {
            let mut rep = Report::new("C07", ev_tier, seed);
            vh::c07::run(&mut rep, tier);
            if tier == "thorough" {
                vh::san::asan_addon(&mut rep);
            }
            rep.finish()
        }
        "SCHED-WORKER" => vh::schedprops::worker_main(&tier.to_uppercase(), &rest[0], rest[1].parse().unwrap_or(1), rest[2].parse().unwrap_or(0), rest[3].parse().unwrap_or(1)),
        "C15" | "C16" => {
            let mut rep = Report::new(prop, ev_tier, seed);
            vh::schedprops::run(prop, &mut rep, tier);
            rep.finish()
        }
        "C20" => {
            let mut rep = Report::new("C20", ev_tier, seed);
            vh::c20::run(&mut rep, tier);
            rep.finish()
        }
        "C19" => {
            let mut rep = Report::new("C19", ev_tier, seed);
            vh::c19::run(&mut rep, tier);
            rep.finish()
        }
        "C03" | "C04" | "C05" | "C06" | "C10" | "C11" | "C12" | "C13" | "C14" => {
            if tier == "replay" {
                return vh::histprops::replay(prop, rest.first().map_or("", |s| s.as_str()));
            }
            let mut rep = Report::new(prop, ev_tier, seed);
            vh::histprops::run(prop, &mut rep, tier);
            if prop == "C11" {
                vh::c11sweep::run(&mut rep, tier);
            }
            if prop == "C14" {
                vh::c14perm::run(&mut rep, tier);
                vh::c14perm::run_deep(&mut rep, tier);
            }
            if tier == "thorough" {
                match prop {
                    "C03" => vh::san::miri_addon(&mut rep, vh::san::jobs("hist", seed..seed + 8, &[])),
                    "C12" => vh::san::miri_addon(&mut rep, vh::san::jobs("hist", seed + 100..seed + 108, &[])),
                    "C04" | "C05" | "C06" | "C10" | "C11" | "C13" | "C14" => vh::san::asan_addon(&mut rep),
                    _ => {}
                }
            }
            rep.finish()
        }
        _ => {
            eprintln!("unknown property {prop}");
            2
        }
    }
}
