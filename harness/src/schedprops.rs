//! C15 / C16: fixtures, operation catalogue, schedule exploration, oracles

use crate::json::J;
use crate::monitors::*;
use crate::report::Report;
use crate::rng::{hash_str, Rng};
use crate::sched::*;
use crate::walk::*;
use autosar_data::*;
use std::sync::Arc;

#[derive(Clone)]
pub struct Fixture {
    pub model: AutosarModel,
    pub f1: ArxmlFile,
    pub f2: ArxmlFile,
    pub pkgs: Element,
    pub pkg_a: Element,
    pub pkg_b: Element,
    pub elements_a: Element,
    pub elements_b: Element,
    pub system: Element,
    pub ecu: Element,
    pub signal: Element,
    pub fibex_ref: Element,
    pub fibex_ref2: Element,
    pub sn_a: Element,
    /// AR-PACKAGES below package A (destination of moves whose source parent is an ancestor of the destination)
    pub sub_a: Element,
    /// DATA-CONSTR-RULES with two rules that are not in sorted order (sort() has something to do; unnamed sub elements can be added)
    pub dc_rules: Element,
    /// ELEMENTS of a package C that lives in the first file only, and an I-SIGNAL of package A that lives in the second file only:
    /// moving the one into the other has to drop the restriction of the moved element
    pub elements_c: Element,
    pub sig_r: Element,
}

pub const DOC_NEW: &str = "<?xml version=\"1.0\" encoding=\"utf-8\"?>\n<AUTOSAR xsi:schemaLocation=\"http://autosar.org/schema/r4.0 AUTOSAR_00050.xsd\" xmlns=\"http://autosar.org/schema/r4.0\" xmlns:xsi=\"http://www.w3.org/2001/XMLSchema-instance\"><AR-PACKAGES><AR-PACKAGE><SHORT-NAME>Loaded</SHORT-NAME><ELEMENTS><SYSTEM><SHORT-NAME>LSys</SHORT-NAME></SYSTEM></ELEMENTS></AR-PACKAGE></AR-PACKAGES></AUTOSAR>";
pub const DOC_NEW2: &str = "<?xml version=\"1.0\" encoding=\"utf-8\"?>\n<AUTOSAR xsi:schemaLocation=\"http://autosar.org/schema/r4.0 AUTOSAR_00050.xsd\" xmlns=\"http://autosar.org/schema/r4.0\" xmlns:xsi=\"http://www.w3.org/2001/XMLSchema-instance\"><AR-PACKAGES><AR-PACKAGE><SHORT-NAME>Loaded2</SHORT-NAME></AR-PACKAGE><AR-PACKAGE><SHORT-NAME>A</SHORT-NAME><ELEMENTS><I-SIGNAL><SHORT-NAME>Extra</SHORT-NAME></I-SIGNAL></ELEMENTS></AR-PACKAGE></AR-PACKAGES></AUTOSAR>";

/// one model, two files (same version unless `mixed`), packages A and B; A holds a system with a reference to an ECU
pub fn fixture(mixed_versions: bool) -> Fixture {
    let model = AutosarModel::new();
    let f1 = model.create_file("f1.arxml", AutosarVersion::Autosar_00050).unwrap();
    let f2 = model.create_file("f2.arxml", if mixed_versions { AutosarVersion::Autosar_00048 } else { AutosarVersion::Autosar_00050 }).unwrap();
    let pkgs = model.root_element().create_sub_element(ElementName::ArPackages).unwrap();
    let pkg_a = pkgs.create_named_sub_element(ElementName::ArPackage, "A").unwrap();
    let pkg_b = pkgs.create_named_sub_element(ElementName::ArPackage, "B").unwrap();
    let elements_a = pkg_a.create_sub_element(ElementName::Elements).unwrap();
    let elements_b = pkg_b.create_sub_element(ElementName::Elements).unwrap();
    let system = elements_a.create_named_sub_element(ElementName::System, "Sys").unwrap();
    let ecu = elements_a.create_named_sub_element(ElementName::EcuInstance, "Ecu").unwrap();
    let signal = elements_a.create_named_sub_element(ElementName::ISignal, "Sig").unwrap();
    let fibex_ref = system
        .create_sub_element(ElementName::FibexElements)
        .and_then(|f| f.create_sub_element(ElementName::FibexElementRefConditional))
        .and_then(|c| c.create_sub_element(ElementName::FibexElementRef))
        .unwrap();
    fibex_ref.set_reference_target(&ecu).unwrap();
    // a second reference element that is still empty
    let fibex_ref2 = system
        .get_sub_element(ElementName::FibexElements)
        .unwrap()
        .create_sub_element(ElementName::FibexElementRefConditional)
        .and_then(|c| c.create_sub_element(ElementName::FibexElementRef))
        .unwrap();
    let sn_a = pkg_a.get_sub_element(ElementName::ShortName).unwrap();
    let sub_a = pkg_a.create_sub_element(ElementName::ArPackages).unwrap();
    let dc_rules = elements_a
        .create_named_sub_element(ElementName::DataConstr, "Dc")
        .and_then(|dc| dc.create_sub_element(ElementName::DataConstrRules))
        .unwrap();
    for level in [2u64, 1] {
        dc_rules
            .create_sub_element(ElementName::DataConstrRule)
            .and_then(|r| r.create_sub_element(ElementName::ConstrLevel))
            .and_then(|l| l.set_character_data(level))
            .unwrap();
    }
    let pkg_c = pkgs.create_named_sub_element(ElementName::ArPackage, "R").unwrap();
    let elements_c = pkg_c.create_sub_element(ElementName::Elements).unwrap();
    let sig_r = elements_a.create_named_sub_element(ElementName::ISignal, "SigR").unwrap();
    if !mixed_versions {
        pkg_c.remove_from_file(&f2).unwrap();
        sig_r.remove_from_file(&f1).unwrap();
    }
    Fixture {
        elements_c,
        sig_r,
        model,
        f1,
        f2,
        pkgs,
        pkg_a,
        pkg_b,
        elements_a,
        elements_b,
        system,
        ecu,
        signal,
        fibex_ref,
        fibex_ref2,
        sn_a,
        sub_a,
        dc_rules,
    }
}

fn r<T>(x: Result<T, AutosarDataError>, ok: impl FnOnce(T) -> String) -> String {
    match x {
        Ok(v) => format!("Ok({})", ok(v)),
        Err(e) => format!("Err({})", crate::hist::err_variant(&e)),
    }
}

pub struct OpDef {
    pub name: &'static str,
    pub writer: bool,
    pub run: fn(&Fixture) -> String,
}

pub fn catalogue() -> Vec<OpDef> {
    vec![
        // ---- readers
        OpDef { name: "root.serialize", writer: false, run: |f| format!("{}", f.model.root_element().serialize().len()) },
        OpDef { name: "f1.serialize", writer: false, run: |f| r(f.f1.serialize(), |t| format!("{}:{}", t.len(), t.contains("AUTOSAR_00050.xsd"))) },
        OpDef { name: "f2.serialize", writer: false, run: |f| r(f.f2.serialize(), |t| format!("{}:{}", t.len(), t.contains(f.f2.version().filename()))) },
        OpDef { name: "sys.path", writer: false, run: |f| r(f.system.path(), |p| p) },
        OpDef { name: "ref.xml_path", writer: false, run: |f| f.fibex_ref.xml_path() },
        OpDef { name: "model.dfs.count", writer: false, run: |f| f.model.elements_dfs().count().to_string() },
        OpDef { name: "model.check_references", writer: false, run: |f| f.model.check_references().len().to_string() },
        OpDef { name: "model.get_element_by_path", writer: false, run: |f| f.model.get_element_by_path("/A/Ecu").is_some().to_string() },
        OpDef { name: "model.get_references_to", writer: false, run: |f| f.model.get_references_to("/A/Ecu").len().to_string() },
        OpDef { name: "ecu.file_membership", writer: false, run: |f| r(f.ecu.file_membership(), |(l, s)| format!("{l}:{}", s.len())) },
        OpDef { name: "pkg_a.debug", writer: false, run: |f| format!("{:?}", f.pkg_a).len().to_string() },
        OpDef { name: "pkg_a.cmp(pkg_b)", writer: false, run: |f| format!("{:?}", f.pkg_a.cmp(&f.pkg_b)) },
        OpDef { name: "elements_a.list_valid_sub_elements", writer: false, run: |f| f.elements_a.list_valid_sub_elements().len().to_string() },
        OpDef { name: "ref.get_reference_target", writer: false, run: |f| r(f.fibex_ref.get_reference_target(), |t| t.element_name().to_string()) },
        OpDef { name: "model.identifiable_elements.count", writer: false, run: |f| f.model.identifiable_elements().count().to_string() },
        OpDef { name: "f1.elements_dfs.count", writer: false, run: |f| f.f1.elements_dfs().count().to_string() },
        OpDef { name: "f1.check_version_compatibility", writer: false, run: |f| f.f1.check_version_compatibility(AutosarVersion::Autosar_4_2_2).0.len().to_string() },
        OpDef { name: "f2.model", writer: false, run: |f| r(f.f2.model(), |_| "model".to_string()) },
        // ---- writers
        OpDef { name: "f2.set_filename(g.arxml)", writer: true, run: |f| r(f.f2.set_filename("g.arxml"), |()| String::new()) },
        OpDef { name: "pkg_a.get_or_create(CATEGORY)", writer: true, run: |f| r(f.pkg_a.get_or_create_sub_element(ElementName::Category), |_| String::new()) },
        OpDef { name: "pkgs.create_named(C)", writer: true, run: |f| r(f.pkgs.create_named_sub_element(ElementName::ArPackage, "C"), |_| String::new()) },
        OpDef { name: "pkgs.create_named(A2)", writer: true, run: |f| r(f.pkgs.create_named_sub_element(ElementName::ArPackage, "A2"), |_| String::new()) },
        OpDef { name: "elements_a.create_named(ISignal,New)", writer: true, run: |f| r(f.elements_a.create_named_sub_element(ElementName::ISignal, "New"), |_| String::new()) },
        OpDef { name: "elements_b.copy(sys)", writer: true, run: |f| r(f.elements_b.create_copied_sub_element(&f.system), |e| e.item_name().unwrap_or_default()) },
        OpDef { name: "elements_a.remove(sig)", writer: true, run: |f| r(f.elements_a.remove_sub_element(f.signal.clone()), |()| String::new()) },
        OpDef { name: "pkgs.remove(pkg_b)", writer: true, run: |f| r(f.pkgs.remove_sub_element(f.pkg_b.clone()), |()| String::new()) },
        OpDef { name: "pkg_a.set_item_name(A2)", writer: true, run: |f| r(f.pkg_a.set_item_name("A2"), |()| String::new()) },
        OpDef { name: "ecu.set_item_name(Ecu2)", writer: true, run: |f| r(f.ecu.set_item_name("Ecu2"), |()| String::new()) },
        OpDef { name: "elements_b.move(ecu)", writer: true, run: |f| r(f.elements_b.move_element_here(&f.ecu), |e| e.item_name().unwrap_or_default()) },
        OpDef { name: "elements_c.move(sig_r)", writer: true, run: |f| r(f.elements_c.move_element_here(&f.sig_r), |e| format!("{}:{:?}", e.item_name().unwrap_or_default(), e.file_membership().map(|(l, s)| (l, s.len())).ok())) },
        OpDef { name: "sub_a.move(pkg_b)", writer: true, run: |f| r(f.sub_a.move_element_here(&f.pkg_b), |e| e.item_name().unwrap_or_default()) },
        OpDef { name: "dc_rules.create(DATA-CONSTR-RULE)", writer: true, run: |f| r(f.dc_rules.create_sub_element(ElementName::DataConstrRule), |_| String::new()) },
        OpDef { name: "root.remove(pkgs)", writer: true, run: |f| r(f.model.root_element().remove_sub_element(f.pkgs.clone()), |()| String::new()) },
        OpDef { name: "root.copy(pkgs)", writer: true, run: |f| r(f.model.root_element().create_copied_sub_element(&f.pkgs), |_| String::new()) },
        OpDef { name: "model.remove_file(last file)(single-file fixture)", writer: true, run: |f| { f.model.remove_file(&f.f2); String::new() } },
        OpDef { name: "model.remove_all_files(composite)", writer: true, run: |f| { f.model.remove_file(&f.f1); f.model.remove_file(&f.f2); String::new() } },
        OpDef { name: "sn_a.set_character_data(A3)", writer: true, run: |f| r(f.sn_a.set_character_data("A3"), |()| String::new()) },
        OpDef { name: "ref.set_reference_target(sig)", writer: true, run: |f| r(f.fibex_ref.set_reference_target(&f.signal), |()| String::new()) },
        OpDef { name: "ref2.set_reference_target(ecu)", writer: true, run: |f| r(f.fibex_ref2.set_reference_target(&f.ecu), |()| String::new()) },
        OpDef { name: "ref.remove_character_data", writer: true, run: |f| r(f.fibex_ref.remove_character_data(), |()| String::new()) },
        OpDef { name: "ref.set_character_data(/A/Sig)", writer: true, run: |f| r(f.fibex_ref.set_character_data("/A/Sig"), |()| String::new()) },
        OpDef { name: "pkg_a.remove_attribute(UUID)", writer: true, run: |f| f.pkg_a.remove_attribute(AttributeName::Uuid).to_string() },
        OpDef { name: "pkg_a.set_comment", writer: true, run: |f| { f.pkg_a.set_comment(Some("c".into())); String::new() } },
        OpDef { name: "pkg_a.set_attribute(UUID)", writer: true, run: |f| r(f.pkg_a.set_attribute(AttributeName::Uuid, CharacterData::String("u".into())), |()| String::new()) },
        OpDef { name: "model.sort", writer: true, run: |f| { f.model.sort(); String::new() } },
        OpDef { name: "model.create_file", writer: true, run: |f| r(f.model.create_file("f3.arxml", AutosarVersion::Autosar_00050), |_| String::new()) },
        OpDef { name: "model.remove_file(f2)", writer: true, run: |f| { f.model.remove_file(&f.f2); String::new() } },
        OpDef { name: "model.load_buffer(new)", writer: true, run: |f| r(f.model.load_buffer(DOC_NEW.as_bytes(), "new.arxml", true), |(_, w)| w.len().to_string()) },
        OpDef { name: "model.load_buffer(new2)", writer: true, run: |f| r(f.model.load_buffer(DOC_NEW2.as_bytes(), "new2.arxml", true), |(_, w)| w.len().to_string()) },
        OpDef { name: "f1.set_version(00049)", writer: true, run: |f| r(f.f1.set_version(AutosarVersion::Autosar_00049), |()| String::new()) },
        OpDef { name: "pkg_b.remove_from_file(f2)", writer: true, run: |f| r(f.pkg_b.remove_from_file(&f.f2), |()| String::new()) },
        OpDef { name: "ecu.add_to_file(f1)", writer: true, run: |f| r(f.ecu.add_to_file(&f.f1), |()| String::new()) },
        OpDef { name: "model.duplicate", writer: true, run: |f| r(f.model.duplicate(), |m| m.elements_dfs().count().to_string()) },
    ]
}

pub struct PairOutcome {
    pub results: Vec<String>,
    pub state: String,
}

fn final_state(f: &Fixture) -> String {
    // serialize() rewrites the schema location of the root element as a side effect: leave the root attributes out
    let t = Tree::of_model(&f.model);
    let mut s = dump_tree(
        &t,
        &DumpOpts {
            membership: true,
            skip_root_attrs: true,
            ..Default::default()
        },
    );
    s.push_str("--files\n");
    let mut files: Vec<String> = f.model.files().map(|x| format!("{} {:?}", file_label(&x), x.version())).collect();
    files.sort();
    s.push_str(&files.join("\n"));
    s.push_str("\n--index\n");
    let mut idx: Vec<String> = f.model.identifiable_elements().map(|(p, w)| format!("{p}->{}", w.upgrade().and_then(|e| t.pos_path_of(&e)).unwrap_or_else(|| "<gone>".into()))).collect();
    idx.sort();
    s.push_str(&idx.join("\n"));
    s.push_str("\n--referrers\n");
    for (k, l) in f.model.verif_reference_origins() {
        let mut items: Vec<String> = l.iter().filter_map(|w| w.upgrade()).map(|e| t.pos_path_of(&e).unwrap_or_else(|| "<outside>".into())).collect();
        items.sort();
        if !items.is_empty() {
            s.push_str(&format!("{k}<-{items:?}\n"));
        }
    }
    s
}

/// all sequential outcomes of the operations (every order), plus the outcomes with one operation left out
/// the shared fixture; operations marked "(single-file fixture)" get a model whose first file was removed before the run starts
fn fixture_for(ops: &[&OpDef], mixed: bool) -> Fixture {
    let f = fixture(mixed);
    if ops.iter().any(|o| o.name.ends_with("(single-file fixture)")) {
        let _ = f.model.remove_file(&f.f1);
    }
    f
}

fn sequential_outcomes(ops: &[&OpDef], mixed: bool) -> (Vec<PairOutcome>, Vec<(usize, PairOutcome)>) {
    let n = ops.len();
    let mut orders: Vec<Vec<usize>> = Vec::new();
    fn perm(cur: &mut Vec<usize>, used: &mut Vec<bool>, n: usize, out: &mut Vec<Vec<usize>>) {
        if cur.len() == n {
            out.push(cur.clone());
            return;
        }
        for i in 0..n {
            if !used[i] {
                used[i] = true;
                cur.push(i);
                perm(cur, used, n, out);
                cur.pop();
                used[i] = false;
            }
        }
    }
    perm(&mut Vec::new(), &mut vec![false; n], n, &mut orders);
    let mut full = Vec::new();
    for order in &orders {
        let f = fixture_for(ops, mixed);
        let mut results = vec![String::new(); n];
        for i in order {
            results[*i] = (ops[*i].run)(&f);
        }
        full.push(PairOutcome { results, state: final_state(&f) });
    }
    // one operation without effect (it returned ParentElementLocked)
    let mut partial = Vec::new();
    for skip in 0..n {
        for order in &orders {
            let f = fixture_for(ops, mixed);
            let mut results = vec![String::new(); n];
            for i in order {
                if *i != skip {
                    results[*i] = (ops[*i].run)(&f);
                }
            }
            partial.push((skip, PairOutcome { results, state: final_state(&f) }));
        }
    }
    (full, partial)
}

pub struct Explore {
    pub schedules: u64,
    pub completed: u64,
    pub deadlocks: u64,
}

/// run one schedule of the given operations
fn run_schedule(sched: &Arc<Sched>, ops: &[&OpDef], mixed: bool, policy: Policy, eager: bool) -> (Outcome, Fixture) {
    let f = fixture_for(ops, mixed);
    let closures: Vec<Box<dyn FnOnce() -> String + Send>> = ops
        .iter()
        .map(|op| {
            let f2 = f.clone();
            let run = op.run;
            Box::new(move || run(&f2)) as Box<dyn FnOnce() -> String + Send>
        })
        .collect();
    let out = sched.run(policy, eager, closures);
    (out, f)
}

fn judge(prop: &str, rep: &mut Report, ops: &[&OpDef], mixed: bool, out: &Outcome, f: &Fixture, seq: &(Vec<PairOutcome>, Vec<(usize, PairOutcome)>), schedule_desc: &str) {
    let names: Vec<&str> = ops.iter().map(|o| o.name).collect();
    let pair = names.join(" || ");
    rep.evaluations += 1;
    rep.distinct.insert(out.trace_hash ^ hash_str(&pair) ^ u64::from(mixed));
    rep.distinct_in("lock_traces", out.trace_hash);
    rep.count("scheduling_points", out.points as u64);
    rep.count("lock_events", out.lock_events as u64);
    rep.count("context_switches", out.context_switches as u64);
    if out.context_switches > 1 {
        rep.count("schedules_with_interleaving", 1);
    }
    if out.mismatches > 0 {
        rep.inconclusive(&format!("the lock model granted a lock that parking_lot did not grant ({} times) in {pair}", out.mismatches));
    }
    if out.budget_exceeded {
        rep.inconclusive(&format!("step budget exceeded in {pair}"));
        return;
    }
    let replay = || {
        J::obj()
            .with("engine", J::s("sched"))
            .with("operations", J::arr_of_str(names.iter().map(|s| (*s).to_string())))
            .with("mixed_versions", J::Bool(mixed))
            .with("schedule", J::s(schedule_desc))
            .with("choices", J::Arr(out.choices.iter().map(|c| J::Int(c.taken as i64)).collect()))
    };
    if let Some(blocked) = &out.deadlock {
        rep.count("schedules_ending_in_deadlock", 1);
        rep.name_in("tuples_with_a_deadlocking_schedule", &pair);
        if prop == "C15" {
            let sig = deadlock_signature(blocked);
            rep.violation("deadlock", &format!("C15:deadlock:{sig}"), &format!("{pair} [{schedule_desc}]: no thread can make progress: {}", describe_deadlock(blocked)), replay());
        }
        return;
    }
    rep.count("schedules_completed", 1);
    if let Some(p) = out.results.iter().flatten().find(|r| r.starts_with("PANIC(")) {
        if prop == "C15" {
            rep.count("schedules_with_panic(belongs to C12/C16)", 1);
        } else {
            rep.violation("concurrent/panic", &format!("C16:concurrent/panic:{}", crate::panicmon::normalise(p)), &format!("{pair} [{schedule_desc}]: {p}"), replay());
        }
        return;
    }
    if prop != "C16" {
        return;
    }
    // iterator pipelines (dfs().count() etc.) are sequences of next() calls, not single operations: not judged here
    if ops.iter().any(|o| o.name.ends_with(".count") || o.name.ends_with("(composite)")) {
        rep.count("schedules_with_composite_readers(not judged)", 1);
        return;
    }
    let results: Vec<String> = out.results.iter().map(|r| r.clone().unwrap_or_default()).collect();
    let state = final_state(f);
    let matches_full = seq.0.iter().any(|s| s.results == results && s.state == state);
    let locked: Vec<usize> = results.iter().enumerate().filter(|(_, r)| r.contains("Err(ParentElementLocked)")).map(|(i, _)| i).collect();
    let matches_partial = locked.len() == 1 && seq.1.iter().any(|(skip, s)| *skip == locked[0] && s.state == state && (0..results.len()).all(|i| i == *skip || s.results[i] == results[i]));
    if !locked.is_empty() {
        rep.count("schedules_with_parent_locked_result", 1);
    }
    if !(matches_full || matches_partial) {
        // classify the anomaly
        let result_ok = seq.0.iter().any(|s| s.results == results);
        let state_ok = seq.0.iter().any(|s| s.state == state);
        let class = match (result_ok, state_ok) {
            (false, _) if !locked.is_empty() => "parent-locked-with-effect-or-unmatched",
            (false, true) => "result",
            (true, false) => "final-state",
            (false, false) => "result+final-state",
            (true, true) => "combination",
        };
        let mut sorted = names.clone();
        sorted.sort();
        // a reader that takes several locks one after the other can observe a state between "before" and "after" a concurrent
        // writer (torn read): one signature per reader, whoever the writer is
        let readers: Vec<&str> = ops.iter().filter(|o| !o.writer).map(|o| o.name).collect();
        if class == "result" && !readers.is_empty() {
            let mut rs = readers.clone();
            rs.sort();
            let mut ws: Vec<&str> = ops.iter().filter(|o| o.writer).map(|o| o.name).collect();
            ws.sort();
            rep.violation(
                "not-serializable",
                &format!("C16:not-serializable:torn-read:{}{}", rs.join(" + "), if ws.is_empty() { String::new() } else { format!(" vs {}", ws.join(" + ")) }),
                &format!("{pair} [{schedule_desc}]: the reader returns {results:?}, which is not what it returns before or after the concurrent writer(s); sequential results: {:?}", seq.0.iter().map(|s| s.results.clone()).collect::<Vec<_>>()),
                replay(),
            );
            return;
        }
        let nearest = seq.0.iter().find(|s| s.results == results).or(seq.0.first());
        let mut diff = nearest.map_or(String::new(), |s| crate::histprops::first_diff(&s.state, &state));
        if locked.len() == 1 {
            // what the call that reported ParentElementLocked changed nevertheless: difference to the run without it
            if let Some((_, s)) = seq.1.iter().find(|(skip, s)| *skip == locked[0] && (0..results.len()).all(|i| i == *skip || s.results[i] == results[i])) {
                diff = format!("{diff}; compared with the run in which the failing call is left out: {}", crate::histprops::first_diff(&s.state, &state));
            }
        }
        // operations that are not atomic with respect to anything: one signature for the operation, whatever the partner
        let family = if names.iter().any(|n| n.starts_with("model.create_file")) {
            Some("create_file gives up on contended locks (try_lock / 10 ms timeouts in add_to_file_restricted) and loses file sets")
        } else if names.iter().any(|n| n.starts_with("model.load_buffer")) {
            Some("load_buffer merges and registers the new file in several separate critical sections")
        } else if names.iter().any(|n| n.starts_with("sn_a.set_character_data")) {
            Some("a direct SHORT-NAME edit updates the element and the path index in separate critical sections")
        } else {
            None
        };
        let sig = match family {
            Some(f) => format!("C16:not-serializable:{}", if f.starts_with("create_file") { "create_file" } else if f.starts_with("load_buffer") { "load_buffer" } else { "direct-short-name-edit" }),
            None => format!("C16:not-serializable:{}", sorted.join(" || ")),
        };
        let _ = class;
        rep.violation(
            "not-serializable",
            &sig,
            &format!("{pair} [{schedule_desc}] ({class}{}): results {results:?} with this final state are not the outcome of any sequential order; sequential results: {:?}; state: {diff}", family.map_or(String::new(), |f| format!("; {f}")), seq.0.iter().map(|s| s.results.clone()).collect::<Vec<_>>()),
            replay(),
        );
        return;
    }
    // invariants after join
    let t = Tree::of_model(&f.model);
    let mut seen = Seen::default();
    let mut v = m_tree(&f.model, &t, false);
    v.extend(m_index(&f.model, &t, &[], &mut seen));
    v.extend(m_refs(&f.model, &t, &mut seen));
    for x in v {
        rep.violation(&x.rule, &format!("C16:invariant:{}:{}", x.rule, x.pred), &format!("{pair} [{schedule_desc}]: {}", x.detail), replay());
    }
}

/// explore schedules of one operation tuple: bounded deviation DFS + random schedules, lazy and eager timeouts
fn explore(prop: &str, rep: &mut Report, sched: &Arc<Sched>, ops: &[&OpDef], mixed: bool, rng: &mut Rng, dfs_cap: usize, bound: usize, random: usize) {
    let seq = if prop == "C16" { sequential_outcomes(ops, mixed) } else { (Vec::new(), Vec::new()) };
    for eager in [false, true] {
        // stateless depth first search over choice prefixes with at most `bound` deviations from the default policy
        let mut stack: Vec<Vec<usize>> = vec![Vec::new()];
        let mut done = 0;
        while let Some(prefix) = stack.pop() {
            if done >= dfs_cap {
                rep.count("dfs_capped_tuples", 1);
                break;
            }
            done += 1;
            let (out, f) = run_schedule(sched, ops, mixed, Policy::Prefix(prefix.clone()), eager);
            judge(prop, rep, ops, mixed, &out, &f, &seq, &format!("dfs prefix {prefix:?} timeouts={}", if eager { "eager" } else { "lazy" }));
            let deviations = prefix.iter().filter(|c| **c != 0).count();
            if deviations < bound {
                let mut children: Vec<Vec<usize>> = Vec::new();
                let mut while_holding: Vec<bool> = Vec::new();
                for (i, cp) in out.choices.iter().enumerate().skip(prefix.len()) {
                    for alt in 1..cp.candidates {
                        let mut p: Vec<usize> = out.choices[..i].iter().map(|c| c.taken).collect();
                        p.push(alt);
                        children.push(p);
                        while_holding.push(cp.holding > 0);
                    }
                }
                // single deviations from the default schedule: when there are more deviation points than the budget allows,
                // take them evenly spaced over the whole run instead of only the last ones (the stack is last-in first-out)
                if prefix.is_empty() && children.len() + 1 > dfs_cap {
                    let keep = if bound == 1 { dfs_cap.saturating_sub(1).max(1) } else { (dfs_cap / 3).max(1) };
                    // a deadlock needs a thread that is preempted while it holds a lock; an atomicity break needs a preemption
                    // between two critical sections: C15 spends three quarters of the budget on the first kind, C16 half
                    let (hold, free): (Vec<_>, Vec<_>) = children.iter().cloned().zip(while_holding.iter().copied()).partition(|(_, h)| *h);
                    let spaced = |v: &[(Vec<usize>, bool)], keep: usize| -> Vec<Vec<usize>> {
                        let n = v.len();
                        if n <= keep {
                            return v.iter().map(|(p, _)| p.clone()).collect();
                        }
                        (0..keep).map(|k| v[(k * n / keep + (n / keep) / 2).min(n - 1)].0.clone()).collect()
                    };
                    let share = if prop == "C15" { keep * 3 / 4 } else { keep / 2 };
                    let k_hold = share.min(hold.len());
                    let k_free = (keep - k_hold).min(free.len());
                    let k_hold = (keep - k_free).min(hold.len());
                    let mut picked = spaced(&free, k_free);
                    picked.extend(spaced(&hold, k_hold));
                    rep.count("dfs_tuples_with_evenly_spaced_deviation_points", 1);
                    rep.count("dfs_deviation_points_while_holding_a_lock", hold.len() as u64);
                    rep.count("dfs_deviation_points_between_critical_sections", free.len() as u64);
                    children = picked;
                    children.dedup();
                }
                stack.extend(children);
            }
        }
        rep.count("dfs_schedules", done as u64);
        for _ in 0..random {
            let (out, f) = run_schedule(sched, ops, mixed, Policy::Random(Rng::new(rng.next())), eager);
            judge(prop, rep, ops, mixed, &out, &f, &seq, &format!("random timeouts={}", if eager { "eager" } else { "lazy" }));
        }
        rep.count("random_schedules", random as u64);
    }
}

pub fn run(prop: &str, rep: &mut Report, tier: &str) {
    let cat = catalogue();
    rep.rule = format!(
        "all unordered pairs of {} single-call operations (readers: serialize, path, iterate, lookups, check_references, Debug, cmp; writers: create, copy, remove, rename, move, set data/reference/comment/attribute, sort, create_file, remove_file, load_buffer, set_version, file sets, duplicate) on a shared two-file fixture, plus writer x reader x model-writer triples; per tuple: depth first enumeration of schedules with a bounded number of deviations from the non-preemptive default at lock-acquisition granularity, plus random schedules, each with lazy and with eager timeouts of the timed lock requests; a case is one executed schedule, distinct by its lock-event trace, non-trivial if it has more than one context switch",
        cat.len()
    );
    rep.assumptions.push("lock model of parking_lot 0.12 RwLock: a pending writer blocks new (also recursive) readers; try operations fail iff the lock is taken; timed operations block until a timeout step; validated at run time: every granted request must succeed with try_* on the real lock (mismatches make the run inconclusive)".into());
    // the scheduler is process global: shard the operation tuples over worker processes
    let shards = crate::report::cpu_count().clamp(1, 16);
    crate::report::run_worker_processes(rep, &["sched-worker".to_string(), prop.to_string(), tier.to_string(), rep.seed.to_string()], shards, if tier == "thorough" { 7000 } else { 900 });
    rep.extra.insert("operations".into(), J::arr_of_str(cat.iter().map(|o| o.name.to_string())));
    rep.sample(J::obj().with("tuple", J::s("pkg_a.set_comment || root.serialize")).with("note", J::s("each schedule is identified by its choice list (see replays)")));
    if tier == "thorough" && prop == "C15" {
        // sanitizer add-on: free-running threads on the real locks under Miri (data races, UB in the lock / Arc / smallvec code); only
        // pairs for which the exploration above found no deadlocking schedule, so that a deadlock reported by Miri is news
        let dead = rep.names.get("tuples_with_a_deadlocking_schedule").cloned().unwrap_or_default();
        let mut pairs = Vec::new();
        for i in 0..cat.len() {
            for j in (i + 1)..cat.len() {
                if (cat[i].writer || cat[j].writer) && !dead.contains(&format!("{} || {}", cat[i].name, cat[j].name)) && !dead.iter().any(|d| d.contains(cat[i].name) && d.contains(cat[j].name)) {
                    pairs.push((cat[i].name, cat[j].name));
                }
            }
        }
        let mut rng = Rng::derive(rep.seed, "san-threads", 0);
        rng.shuffle(&mut pairs);
        rep.count("miri.threads.candidate_pairs_without_deadlock", pairs.len() as u64);
        let jobs: Vec<crate::san::Job> = pairs
            .iter()
            .take(16)
            .enumerate()
            .map(|(k, (a, b))| crate::san::Job {
                part: "threads",
                seed: rep.seed + k as u64,
                args: vec![(*a).to_string(), (*b).to_string()],
            })
            .collect();
        crate::san::miri_addon(rep, jobs);
    }
    rep.require("operation_tuples", 300);
    rep.require("schedules_with_interleaving", 2000);
    rep.require("schedules_completed", 2000);
}

/// one worker process: explores the tuples with index % shards == shard and prints its report
pub fn worker_main(prop: &str, tier: &str, seed: u64, shard: usize, shards: usize) -> i32 {
    crate::panicmon::install();
    let thorough = tier == "thorough";
    let mut rep = Report::new(prop, if thorough { "thorough" } else { "quick" }, seed);
    let rep = &mut rep;
    let sched = Sched::new();
    autosar_data::verif::set_monitor(Some(sched.clone()));
    let cat = catalogue();
    // the quick tier is a deterministic enumeration (no random schedules), so that the set of reachable findings does not depend on the seed
    let (dfs_cap, bound, random) = if thorough { (1500, 2, 300) } else { (250, 1, 0) };
    let mut tuples = 0u64;
    let mut index = 0usize;
    for i in 0..cat.len() {
        for j in i..cat.len() {
            // reader/reader pairs cannot conflict; keep a sample of them
            if !cat[i].writer && !cat[j].writer && !(thorough || (i + j) % 7 == 0) {
                continue;
            }
            // the single-file fixture exists for C15 (lock order of the "last file removed" branch); for C16 that branch is one more
            // top-down removal that is not atomic with respect to anything working inside the tree - the class already recorded for
            // root.remove(pkgs) - and would only multiply its signatures
            if prop == "C16" && (cat[i].name.ends_with("(single-file fixture)") || cat[j].name.ends_with("(single-file fixture)")) {
                continue;
            }
            for mixed in [false, true] {
                if mixed && !(cat[i].name.contains("serialize") || cat[j].name.contains("serialize") || cat[i].name.contains("set_version") || cat[j].name.contains("set_version")) {
                    continue;
                }
                index += 1;
                if index % shards != shard {
                    continue;
                }
                // debugging aid: VERIF_SCHED_ONLY="<name of op a>|<name of op b>" restricts the exploration to one pair
                if let Ok(only) = std::env::var("VERIF_SCHED_ONLY") {
                    let mut it = only.split('|');
                    let (a, b) = (it.next().unwrap_or(""), it.next().unwrap_or(""));
                    if !((cat[i].name == a && cat[j].name == b) || (cat[i].name == b && cat[j].name == a)) {
                        continue;
                    }
                }
                tuples += 1;
                // the random schedules are drawn from a fixed stream per tuple: the exploration is the same for every VERIF_SEED, so that
                // the set of findings reachable on a given tree does not depend on the seed (the seed is recorded in the evidence only)
                let mut rng = Rng::derive(0x5eed, "sched", index as u64);
                explore(prop, rep, &sched, &[&cat[i], &cat[j]], mixed, &mut rng, dfs_cap, bound, random);
                // the default schedule runs the first operation to its end before the second one starts, so a bounded number of
                // deviations explores the two orders differently: pairs of writers are explored in the other order as well
                if i != j && cat[i].writer && cat[j].writer {
                    explore(prop, rep, &sched, &[&cat[j], &cat[i]], mixed, &mut rng, dfs_cap, bound, 0);
                }
            }
        }
    }
    // triples: element writer x reader x model writer
    let triples: Vec<[&str; 3]> = vec![
        ["pkg_a.set_item_name(A2)", "model.check_references", "model.create_file"],
        ["elements_b.move(ecu)", "root.serialize", "model.sort"],
        ["ecu.set_item_name(Ecu2)", "ref.get_reference_target", "model.load_buffer(new)"],
        ["pkg_a.set_comment", "f1.serialize", "model.remove_file(f2)"],
        ["elements_a.remove(sig)", "model.dfs.count", "model.duplicate"],
    ];
    for t in &triples {
        index += 1;
        if index % shards != shard {
            continue;
        }
        let ops: Vec<&OpDef> = t.iter().filter_map(|n| cat.iter().find(|o| o.name == *n)).collect();
        if ops.len() == 3 {
            tuples += 1;
            let mut rng = Rng::derive(0x5eed, "sched", index as u64);
            explore(prop, rep, &sched, &ops, false, &mut rng, dfs_cap / 2, bound, random * 3);
        }
    }
    autosar_data::verif::set_monitor(None);
    rep.count("operation_tuples", tuples);
    println!("REPORT {}", rep.to_json().to_string_compact());
    0
}
