//! SAN — sanitizer add-on of the thorough tiers: small versions of the monitored workloads executed by Miri
//! (`cargo +nightly miri run`, one process per seed), and the native driver that starts them and reads their reports.
//!
//! A part prints `SAN-PART part=<p> seed=<s> events=<n> monitor_violations=<k>`; Miri itself reports undefined behaviour and data
//! races on stderr and ends the process with a failure. The driver never turns a tooling problem (Miri missing, build failure,
//! unsupported operation, watchdog) into a verdict: such runs are recorded as "not run" in the evidence.

use crate::json::J;
use crate::monitors::*;
use crate::report::Report;
use crate::rng::Rng;
use crate::walk::Tree;
use autosar_data::*;

pub const PARTS: [&str; 4] = ["lookup", "load", "hist", "threads"];

fn finish_part(part: &str, seed: u64, events: u64, viols: &[String]) -> i32 {
    for v in viols {
        println!("SAN-VIOL part={part} seed={seed} {v}");
    }
    println!("SAN-PART part={part} seed={seed} events={events} monitor_violations={}", viols.len());
    i32::from(!viols.is_empty())
}

/// entry point of `vh MIRI <part> <seed> [args]` (also runs natively, which is how the parts are tested)
pub fn part_main(part: &str, seed: u64, rest: &[String]) -> i32 {
    crate::panicmon::install();
    match part {
        "lookup" => {
            let (events, viols) = crate::c18::small_lookup_sweep(seed);
            finish_part(part, seed, events, &viols)
        }
        "load" => {
            let (events, viols) = load_part(seed);
            finish_part(part, seed, events, &viols)
        }
        "hist" => {
            let (events, viols) = hist_part(seed, rest.first().map_or("C03", |s| s.as_str()));
            finish_part(part, seed, events, &viols)
        }
        "threads" => {
            let names: Vec<&str> = rest.iter().map(|s| s.as_str()).collect();
            let (events, viols) = threads_part(seed, &names);
            finish_part(part, seed, events, &viols)
        }
        // compiles the interpreter's copy of the crates, runs nothing
        "warmup" => finish_part(part, seed, 0, &[]),
        // self-test of the add-on's plumbing only (never part of a check): a deliberate use after free the tools must report
        "selftest-ub" => {
            let p = Box::into_raw(Box::new(41u8));
            #[allow(unused_unsafe)]
            let v = unsafe {
                drop(Box::from_raw(p));
                std::ptr::read_volatile(p)
            };
            finish_part(part, seed, u64::from(v), &[])
        }
        _ => {
            println!("unknown part {part}");
            2
        }
    }
}

/// hostile and valid short inputs through both load modes and check_buffer, judged by the C02 oracle
fn load_part(seed: u64) -> (u64, Vec<String>) {
    let mut rep = Report::new("C02", "san", seed);
    let mut rng = Rng::derive(seed, "san-load", 0);
    let fixed: [&[u8]; 14] = [
        b"<?>",
        b"<?xml version=?>",
        b"<?xml version=\"1.0\"?><AUTOSAR xmlns=\" \">",
        b"<A><![CDATA[x]]></A>",
        b"<!-- c --><AUTOSAR/>",
        b"\xef\xbb\xbf<?xml version=\"1.0\" encoding=\"utf-8\"?>\n<AUTOSAR></AUTOSAR>",
        b"<AUTOSAR><AR-PACKAGES><AR-PACKAGE><SHORT-NAME>&#65;&amp;</SHORT-NAME></AR-PACKAGE></AR-PACKAGES></AUTOSAR>",
        b"<AUTOSAR a='1' b=\"2\" a='3'/>",
        b"</AUTOSAR>",
        b"<AUTOSAR><AUTOSAR>",
        b"<AUTOSAR>&#xffffffffff;</AUTOSAR>",
        b"<AUTOSAR>\xff\xfe</AUTOSAR>",
        b"",
        b"<",
    ];
    for b in fixed {
        crate::c02::probe(&mut rep, b, "fixed");
    }
    // a valid document with values of every kind, and mutations of it
    let valid = crate::schedprops::DOC_NEW2.as_bytes().to_vec();
    crate::c02::probe(&mut rep, &valid, "valid");
    for _ in 0..10 {
        let mut m = valid.clone();
        match rng.below(4) {
            0 => {
                let at = rng.below(m.len());
                m.truncate(at);
            }
            1 => {
                let at = rng.below(m.len());
                m[at] = *rng.pick(b"<>&\"'/?! =");
            }
            2 => {
                let at = rng.below(m.len());
                m.remove(at);
            }
            _ => {
                let at = rng.below(m.len());
                let to = (at + rng.range(1, 30)).min(m.len());
                let piece: Vec<u8> = m[at..to].to_vec();
                let ins = rng.below(m.len());
                for (k, c) in piece.into_iter().enumerate() {
                    m.insert(ins + k, c);
                }
            }
        }
        crate::c02::probe(&mut rep, &m, "mutated");
    }
    let viols: Vec<String> = rep.violations.iter().map(|v| format!("sig={} detail={}", v.sig, clip(&v.detail))).collect();
    (rep.evaluations, viols)
}

/// a short tour through the mutating API on a small two-file model (order of the middle steps drawn from the seed); the
/// structural monitors (tree shape, path index, referrer lists) run after every step
fn hist_part(seed: u64, _prop: &str) -> (u64, Vec<String>) {
    let mut rng = Rng::derive(seed, "san-hist", 0);
    let f = crate::schedprops::fixture(seed % 2 == 0);
    let mut viols = Vec::new();
    let mut events = 0u64;
    let mut check = |what: &str, viols: &mut Vec<String>, events: &mut u64| {
        let t = Tree::of_model(&f.model);
        let mut seen = Seen::default();
        let mut v = m_tree(&f.model, &t, true);
        v.extend(m_index(&f.model, &t, &[], &mut seen));
        v.extend(m_refs(&f.model, &t, &mut seen));
        *events += 1;
        for x in v {
            viols.push(format!("sig=san:{}:{} detail=after {what}: {}", x.rule, x.pred, clip(&x.detail)));
        }
    };
    check("fixture", &mut viols, &mut events);
    let mut steps: Vec<(&str, Box<dyn Fn() -> bool>)> = vec![
        ("create_named", Box::new(|| f.elements_b.create_named_sub_element(ElementName::ISignal, "S2").is_ok())),
        ("set_reference_target", Box::new(|| f.fibex_ref2.set_reference_target(&f.signal).is_ok())),
        ("rename", Box::new(|| f.ecu.set_item_name("Ecu2").is_ok())),
        ("move", Box::new(|| f.elements_b.move_element_here(&f.ecu).is_ok())),
        ("copy", Box::new(|| f.elements_b.create_copied_sub_element(&f.system).is_ok())),
        ("set_attribute", Box::new(|| f.pkg_a.set_attribute_string(AttributeName::Uuid, "u-1").is_ok())),
        ("remove_character_data", Box::new(|| f.fibex_ref.remove_character_data().is_ok())),
        ("file restriction", Box::new(|| f.pkg_b.remove_from_file(&f.f2).is_ok())),
        ("sort", Box::new(|| {
            f.model.sort();
            true
        })),
        ("remove", Box::new(|| f.elements_a.remove_sub_element(f.signal.clone()).is_ok())),
    ];
    rng.shuffle(&mut steps);
    for (name, step) in steps.iter().take(4) {
        match crate::panicmon::catch(|| step()) {
            Ok(_) => {}
            Err(ab) => viols.push(format!("sig=C12:single-thread/panic:{} detail={name}", ab.signature())),
        }
        check(name, &mut viols, &mut events);
    }
    // serialize, reload into a second model, duplicate
    if let Ok(text) = f.f1.serialize() {
        let m2 = AutosarModel::new();
        if m2.load_buffer(text.as_bytes(), "again.arxml", false).is_err() {
            viols.push("sig=C01:serialize/own-output-rejected detail=lenient reload of f1".to_string());
        }
        events += 1;
    }
    if f.model.duplicate().is_err() {
        viols.push("sig=C13:duplicate/fails detail=".to_string());
    }
    f.model.remove_file(&f.f2);
    check("remove_file", &mut viols, &mut events);
    (events, viols)
}

/// free-running threads on the real parking_lot locks (no scheduler installed): the named catalogue operations run concurrently
/// on the shared fixture; after the join the structural monitors walk the model
fn threads_part(seed: u64, names: &[&str]) -> (u64, Vec<String>) {
    let cat = crate::schedprops::catalogue();
    let f = crate::schedprops::fixture(seed % 2 == 1);
    let mut handles = Vec::new();
    for n in names {
        let Some(op) = cat.iter().find(|o| o.name == *n) else {
            return (0, vec![format!("sig=harness:unknown-operation detail={n}")]);
        };
        let f2 = f.clone();
        let run = op.run;
        handles.push(std::thread::spawn(move || run(&f2)));
    }
    let mut viols = Vec::new();
    let mut events = 0;
    for (h, n) in handles.into_iter().zip(names) {
        match h.join() {
            Ok(_) => events += 1,
            Err(e) => viols.push(format!("sig=C16:concurrent/panic detail={n}: {}", crate::report::panic_message(&e))),
        }
    }
    let t = Tree::of_model(&f.model);
    let mut seen = Seen::default();
    let v = m_tree(&f.model, &t, false);
    // (index and referrer anomalies after racing writers are judged by C16 against the sequential outcomes, not here)
    let _ = m_index(&f.model, &t, &[], &mut seen);
    events += seen.elements + seen.identifiables;
    for x in v {
        viols.push(format!("sig=C03:{}:{} detail={}", x.rule, x.pred, clip(&x.detail)));
    }
    (events, viols)
}

// ------------------------------------------------------------------------------------------------ native driver

pub struct Job {
    pub part: &'static str,
    pub seed: u64,
    pub args: Vec<String>,
}

#[derive(Debug)]
enum JobResult {
    Clean { events: u64 },
    /// Miri reported undefined behaviour, a data race or a deadlock
    MiriError { kind: String, text: String },
    MonitorViolation { text: String },
    NotRun { reason: String },
}

fn classify(stdout: &str, stderr: &str, code: Option<i32>, timed_out: bool) -> JobResult {
    if timed_out {
        return JobResult::NotRun { reason: "watchdog (wall clock) fired".into() };
    }
    let first_error = stderr.lines().find(|l| l.starts_with("error"));
    if let Some(err) = first_error {
        let lower = err.to_lowercase();
        let kind = if lower.contains("undefined behavior") {
            Some("undefined-behavior")
        } else if lower.contains("data race") {
            Some("data-race")
        } else if lower.contains("deadlock") {
            Some("deadlock")
        } else {
            None
        };
        if let Some(kind) = kind {
            // backtrace format: `   0: path::to::function` followed by `       at file:line:col`; take the first frame whose
            // location is inside /repo (else the innermost frame)
            let lines: Vec<&str> = stderr.lines().collect();
            let mut frames: Vec<(String, String)> = Vec::new();
            for (i, l) in lines.iter().enumerate() {
                let t = l.trim_start();
                if let Some((n, f)) = t.split_once(": ") {
                    if !n.is_empty() && n.chars().all(|c| c.is_ascii_digit()) {
                        let at = lines.get(i + 1).map_or("", |x| x.trim_start());
                        if let Some(loc) = at.strip_prefix("at ") {
                            frames.push((f.trim().to_string(), loc.to_string()));
                        }
                    }
                }
            }
            let func = frames
                .iter()
                .find(|(f, loc)| loc.contains("/repo/") || f.starts_with("autosar_data"))
                .or(frames.first())
                .map_or("?".to_string(), |(f, _)| f.clone());
            let block: Vec<&str> = stderr.lines().skip_while(|l| !l.starts_with("error")).take(40).collect();
            return JobResult::MiriError {
                kind: format!("{kind}:{}", crate::panicmon::normalise(&func)),
                text: block.join("\n"),
            };
        }
        return JobResult::NotRun {
            reason: format!("miri/cargo error that is not a finding: {}", clip(err)),
        };
    }
    let Some(line) = stdout.lines().find(|l| l.starts_with("SAN-PART ")) else {
        return JobResult::NotRun {
            reason: format!("no report line (exit {code:?}); stderr tail: {}", clip(&stderr.lines().rev().take(3).collect::<Vec<_>>().join(" | "))),
        };
    };
    let field = |k: &str| line.split_whitespace().find_map(|w| w.strip_prefix(k)).and_then(|v| v.parse::<u64>().ok()).unwrap_or(0);
    if field("monitor_violations=") > 0 {
        let text: Vec<&str> = stdout.lines().filter(|l| l.starts_with("SAN-VIOL")).collect();
        return JobResult::MonitorViolation { text: text.join("\n") };
    }
    JobResult::Clean { events: field("events=") }
}

fn run_job(job: &Job, timeout_s: u64) -> (JobResult, f64) {
    use std::process::{Command, Stdio};
    let start = std::time::Instant::now();
    let harness = crate::report::verif_root().join("harness");
    let mut cmd = Command::new("cargo");
    cmd.current_dir(&harness)
        .args(["+nightly", "miri", "run", "--offline", "--quiet", "--bin", "vh", "--", "MIRI", job.part, &job.seed.to_string()])
        .args(&job.args)
        .env("MIRIFLAGS", "-Zmiri-disable-isolation -Zmiri-ignore-leaks")
        .env("CARGO_NET_OFFLINE", "true")
        .env_remove("RUSTFLAGS")
        .stdout(Stdio::piped())
        .stderr(Stdio::piped());
    let mut child = match cmd.spawn() {
        Ok(c) => c,
        Err(e) => return (JobResult::NotRun { reason: format!("cannot start cargo: {e}") }, 0.0),
    };
    let mut so = child.stdout.take().unwrap();
    let mut se = child.stderr.take().unwrap();
    let r1 = std::thread::spawn(move || {
        let mut s = String::new();
        let _ = std::io::Read::read_to_string(&mut so, &mut s);
        s
    });
    let r2 = std::thread::spawn(move || {
        let mut s = Vec::new();
        let _ = std::io::Read::read_to_end(&mut se, &mut s);
        String::from_utf8_lossy(&s).into_owned()
    });
    let mut timed_out = false;
    let status = loop {
        match child.try_wait() {
            Ok(Some(st)) => break Some(st),
            Ok(None) => {
                if start.elapsed().as_secs() >= timeout_s {
                    timed_out = true;
                    let _ = child.kill();
                    // the interpreter is a grandchild
                    let _ = Command::new("pkill").args(["-f", &format!("MIRI {} {}", job.part, job.seed)]).status();
                    break child.wait().ok();
                }
                std::thread::sleep(std::time::Duration::from_millis(50));
            }
            Err(_) => break None,
        }
    };
    let stdout = r1.join().unwrap_or_default();
    let stderr = r2.join().unwrap_or_default();
    (classify(&stdout, &stderr, status.and_then(|s| s.code()), timed_out), start.elapsed().as_secs_f64())
}

/// run the jobs (first one alone: it builds the interpreter's copy of the crates; the rest in parallel) and fold the results into
/// the report of the property
pub fn miri_addon(rep: &mut Report, jobs: Vec<Job>) {
    if std::env::var("VERIF_NO_SAN").is_ok() || jobs.is_empty() {
        rep.extra.insert("sanitizer_addon".into(), J::obj().with("tool", J::s("miri")).with("status", J::s("switched off (VERIF_NO_SAN)")));
        return;
    }
    let prop = rep.prop.clone();
    let timeout_s = 1500;
    let mut results: Vec<(usize, JobResult, f64)> = Vec::new();
    // one empty run first: it builds the interpreter's copy of the crates (cargo would serialise parallel builds anyway)
    let (warm, _) = run_job(&Job { part: "warmup", seed: 0, args: vec![] }, timeout_s);
    let tooling_broken = !matches!(warm, JobResult::Clean { .. });
    if let JobResult::NotRun { reason } = &warm {
        results.push((0, JobResult::NotRun { reason: format!("warm-up run: {reason}") }, 0.0));
    } else if tooling_broken {
        results.push((0, JobResult::NotRun { reason: format!("warm-up run: {warm:?}") }, 0.0));
    }
    if !tooling_broken {
        let threads = crate::report::cpu_count().max(1);
        let next = std::sync::atomic::AtomicUsize::new(0);
        let collected = std::sync::Mutex::new(Vec::new());
        std::thread::scope(|s| {
            for _ in 0..threads.min(jobs.len()) {
                s.spawn(|| loop {
                    let i = next.fetch_add(1, std::sync::atomic::Ordering::SeqCst);
                    if i >= jobs.len() {
                        break;
                    }
                    let (r, wall) = run_job(&jobs[i], timeout_s);
                    collected.lock().unwrap().push((i, r, wall));
                });
            }
        });
        results.extend(collected.into_inner().unwrap());
    }
    results.sort_by_key(|r| r.0);
    let mut clean = 0u64;
    let mut events = 0u64;
    let mut not_run = Vec::new();
    let mut per_part: std::collections::BTreeMap<String, (u64, u64)> = std::collections::BTreeMap::new();
    for (i, r, wall) in &results {
        let job = &jobs[*i];
        match r {
            JobResult::Clean { events: e } => {
                clean += 1;
                events += e;
                let p = per_part.entry(job.part.to_string()).or_default();
                p.0 += 1;
                p.1 += e;
                rep.count(&format!("miri.{}.processes_without_report", job.part), 1);
                rep.count(&format!("miri.{}.events", job.part), *e);
                let _ = wall;
            }
            JobResult::MiriError { kind, text } => {
                rep.violation(
                    "miri/report",
                    &format!("{prop}:miri:{}:{kind}", job.part),
                    &format!("Miri reports on `vh MIRI {} {} {}`:\n{text}", job.part, job.seed, job.args.join(" ")),
                    J::obj().with("engine", J::s("miri")).with("part", J::s(job.part)).with("seed", J::Int(job.seed as i64)).with("args", J::arr_of_str(job.args.iter().cloned())),
                );
            }
            JobResult::MonitorViolation { text } => {
                rep.violation(
                    "miri/monitor",
                    &format!("{prop}:miri-monitor:{}", job.part),
                    &format!("a monitor fired in the interpreted run `vh MIRI {} {} {}` (it runs the same oracles as the native check on a tiny workload):\n{text}", job.part, job.seed, job.args.join(" ")),
                    J::obj().with("engine", J::s("miri")).with("part", J::s(job.part)).with("seed", J::Int(job.seed as i64)).with("args", J::arr_of_str(job.args.iter().cloned())),
                );
            }
            JobResult::NotRun { reason } => not_run.push(format!("{} seed {}: {reason}", job.part, job.seed)),
        }
    }
    if tooling_broken {
        not_run.push(format!("{} interpreter runs were not started", jobs.len()));
    }
    let status = if not_run.is_empty() {
        "ran"
    } else if clean > 0 {
        "partly ran"
    } else {
        "not run"
    };
    if !not_run.is_empty() {
        println!("SAN-ADDON-NOT-RUN property={prop} tool=miri ({} of {} runs): {}", not_run.len(), jobs.len(), clip(&not_run[0]));
    }
    rep.extra.insert(
        "sanitizer_addon".into(),
        J::obj()
            .with("tool", J::s("miri (cargo +nightly miri run, -Zmiri-disable-isolation -Zmiri-ignore-leaks)"))
            .with("status", J::s(status))
            .with("processes_started", J::Int(results.len() as i64))
            .with("processes_clean", J::Int(clean as i64))
            .with("events_observed_under_the_interpreter", J::Int(events as i64))
            .with("per_part", J::Obj(per_part.iter().map(|(k, v)| (k.clone(), J::obj().with("processes", J::Int(v.0 as i64)).with("events", J::Int(v.1 as i64)))).collect()))
            .with("not_run", J::arr_of_str(not_run.iter().cloned()))
            .with("meaning", J::s("no report = Miri saw no undefined behaviour / data race on these executions; it is not a proof of memory safety; tooling problems never change the verdict of the primary monitors")),
    );
}

/// `vh SAN-SELFTEST`: the driver must classify a deliberate use after free as a Miri report
pub fn selftest() -> i32 {
    let (r, wall) = run_job(&Job { part: "selftest-ub", seed: 1, args: vec![] }, 1500);
    println!("miri self-test ({wall:.0} s): {r:?}");
    i32::from(!matches!(r, JobResult::MiriError { .. }))
}

pub fn jobs(part: &'static str, seeds: std::ops::Range<u64>, args: &[&str]) -> Vec<Job> {
    seeds
        .map(|s| Job {
            part,
            seed: s,
            args: args.iter().map(|a| (*a).to_string()).collect(),
        })
        .collect()
}

// ------------------------------------------------------------------------------------------------ AddressSanitizer add-on

pub fn is_san_child() -> bool {
    std::env::var("VERIF_SAN_CHILD").is_ok()
}

/// rebuild the harness (and with it both crates of /repo) with AddressSanitizer and repeat the quick workload of the property
/// with another seed; ASan reports and monitor violations of that run become violations of the property
pub fn asan_addon(rep: &mut Report) {
    use std::process::{Command, Stdio};
    let prop = rep.prop.clone();
    let mut note = |rep: &mut Report, status: &str, detail: J| {
        rep.extra.insert(
            "sanitizer_addon_asan".into(),
            J::obj()
                .with("tool", J::s("AddressSanitizer (cargo +nightly build -Zsanitizer=address --target x86_64-unknown-linux-gnu; detect_leaks=0 halt_on_error=1)"))
                .with("status", J::s(status))
                .with("detail", detail)
                .with("meaning", J::s("no report = ASan saw no invalid heap/stack/global access on these executions (red zone based: not a proof); tooling problems never change the verdict of the primary monitors")),
        );
    };
    if std::env::var("VERIF_NO_SAN").is_ok() || is_san_child() {
        note(rep, "switched off", J::Null);
        return;
    }
    let root = crate::report::verif_root();
    let harness = root.join("harness");
    let build = Command::new("cargo")
        .current_dir(&harness)
        .args(["+nightly", "build", "--release", "--offline", "--target", "x86_64-unknown-linux-gnu", "--target-dir", "target/asan"])
        .env("RUSTFLAGS", "-Zsanitizer=address -Cforce-frame-pointers=yes")
        .env("CARGO_NET_OFFLINE", "true")
        .stdout(Stdio::null())
        .stderr(Stdio::piped())
        .output();
    let exe = harness.join("target/asan/x86_64-unknown-linux-gnu/release/vh");
    match build {
        Ok(o) if o.status.success() && exe.exists() => {}
        Ok(o) => {
            let tail: Vec<String> = String::from_utf8_lossy(&o.stderr).lines().rev().take(5).map(str::to_string).collect();
            println!("SAN-ADDON-NOT-RUN property={prop} tool=asan: build failed");
            note(rep, "not run (sanitizer build failed)", J::arr_of_str(tail.into_iter()));
            return;
        }
        Err(e) => {
            println!("SAN-ADDON-NOT-RUN property={prop} tool=asan: cannot start cargo: {e}");
            note(rep, "not run (cannot start cargo)", J::s(e.to_string()));
            return;
        }
    }
    let log_dir = harness.join("target/asan-logs");
    let _ = std::fs::create_dir_all(&log_dir);
    let log_prefix = log_dir.join(format!("{prop}.log"));
    if let Ok(rd) = std::fs::read_dir(&log_dir) {
        for e in rd.flatten() {
            if e.file_name().to_string_lossy().starts_with(&format!("{prop}.log")) {
                let _ = std::fs::remove_file(e.path());
            }
        }
    }
    let ev_path = harness.join(format!("target/san-evidence/{prop}.json"));
    let _ = std::fs::remove_file(&ev_path);
    let start = std::time::Instant::now();
    let child_seed = rep.seed.wrapping_add(1000);
    let out = Command::new(&exe)
        .current_dir(&root)
        .args([prop.as_str(), "quick"])
        .env("VERIF_SAN_CHILD", "asan")
        .env("VERIF_EVIDENCE_DIR", harness.join("target/san-evidence"))
        .env("VERIF_ROOT", &root)
        .env("VERIF_SEED", child_seed.to_string())
        .env("ASAN_OPTIONS", format!("detect_leaks=0:halt_on_error=1:exitcode=99:log_path={}", log_prefix.display()))
        .stdout(Stdio::piped())
        .stderr(Stdio::piped())
        .output();
    let out = match out {
        Ok(o) => o,
        Err(e) => {
            println!("SAN-ADDON-NOT-RUN property={prop} tool=asan: cannot start the instrumented binary: {e}");
            note(rep, "not run (cannot start the instrumented binary)", J::s(e.to_string()));
            return;
        }
    };
    // reports of the process and of its worker processes
    let mut reports = 0;
    if let Ok(rd) = std::fs::read_dir(&log_dir) {
        for e in rd.flatten() {
            if !e.file_name().to_string_lossy().starts_with(&format!("{prop}.log")) {
                continue;
            }
            let text = std::fs::read_to_string(e.path()).unwrap_or_default();
            let Some(head) = text.lines().find(|l| l.contains("ERROR: AddressSanitizer")) else { continue };
            reports += 1;
            let kind = head.split("AddressSanitizer:").nth(1).unwrap_or("?").trim().split_whitespace().next().unwrap_or("?").to_string();
            let frame = text
                .lines()
                .filter(|l| l.trim_start().starts_with('#'))
                .find(|l| l.contains("autosar_data") || l.contains("/repo/"))
                .or_else(|| text.lines().find(|l| l.trim_start().starts_with("#0")))
                .unwrap_or("");
            let func = frame.split(" in ").nth(1).unwrap_or("?").split(' ').next().unwrap_or("?");
            let block: Vec<&str> = text.lines().take(40).collect();
            rep.violation(
                "asan/report",
                &format!("{prop}:asan:{kind}:{}", crate::panicmon::normalise(func)),
                &format!("AddressSanitizer report while running `vh {prop} quick` (VERIF_SEED={child_seed}) in the instrumented build:\n{}", block.join("\n")),
                J::obj().with("engine", J::s("asan")).with("seed", J::Int(child_seed as i64)).with("log", J::s(e.path().display().to_string())),
            );
        }
    }
    let stdout = String::from_utf8_lossy(&out.stdout).into_owned();
    let code = out.status.code();
    let verdict_line = stdout.lines().find(|l| l.contains("verdict=")).unwrap_or("").to_string();
    // monitor violations found by the repeated workload (known findings were filtered by the child itself)
    let mut monitor_violations = 0;
    if code == Some(1) {
        let sigs: Vec<&str> = stdout.lines().filter_map(|l| l.trim().strip_prefix("rule=")).collect();
        let replays: Vec<&str> = stdout.lines().filter_map(|l| l.strip_prefix("VIOLATION ")).collect();
        for (k, s) in sigs.iter().enumerate() {
            monitor_violations += 1;
            let sig = s.split("sig=").nth(1).unwrap_or(s).trim();
            rep.violation(
                "asan-run/monitor",
                sig,
                &format!("found by the repeated workload of the instrumented build (VERIF_SEED={child_seed}): {s}; {}", replays.get(k).copied().unwrap_or("")),
                J::obj().with("engine", J::s("asan-run")).with("seed", J::Int(child_seed as i64)).with("child_line", J::s(*s)),
            );
        }
    }
    let status = match code {
        Some(0) | Some(1) => "ran",
        Some(99) => "ran (ended by an ASan report)",
        _ => "ran, but the instrumented run ended abnormally or inconclusively (not judged)",
    };
    if !matches!(code, Some(0) | Some(1) | Some(99)) {
        println!("SAN-ADDON-NOT-RUN property={prop} tool=asan: instrumented run ended with {code:?}: {}", clip(&verdict_line));
    }
    let child_ev = std::fs::read_to_string(&ev_path).ok().and_then(|t| crate::json::parse(&t).ok());
    let evals = child_ev.as_ref().and_then(|j| j.get("coverage")).and_then(|c| c.get("evaluations")).and_then(J::as_i64).unwrap_or(0);
    rep.count("asan.evaluations_in_instrumented_build", evals as u64);
    note(
        rep,
        status,
        J::obj()
            .with("workload", J::s(format!("vh {prop} quick, VERIF_SEED={child_seed}")))
            .with("exit_code", J::Int(i64::from(code.unwrap_or(-1))))
            .with("evaluations", J::Int(evals))
            .with("asan_reports", J::Int(reports))
            .with("monitor_violations", J::Int(monitor_violations))
            .with("wall_s", J::Num(start.elapsed().as_secs_f64().round()))
            .with("verdict_line", J::s(verdict_line)),
    );
}
