//! walk over the specification tables starting at ElementType::ROOT

use autosar_data_specification::*;
use std::collections::{HashMap, HashSet, VecDeque};

pub const ALL_VERSIONS: [AutosarVersion; 21] = [
    AutosarVersion::Autosar_4_0_1,
    AutosarVersion::Autosar_4_0_2,
    AutosarVersion::Autosar_4_0_3,
    AutosarVersion::Autosar_4_1_1,
    AutosarVersion::Autosar_4_1_2,
    AutosarVersion::Autosar_4_1_3,
    AutosarVersion::Autosar_4_2_1,
    AutosarVersion::Autosar_4_2_2,
    AutosarVersion::Autosar_4_3_0,
    AutosarVersion::Autosar_00042,
    AutosarVersion::Autosar_00043,
    AutosarVersion::Autosar_00044,
    AutosarVersion::Autosar_00045,
    AutosarVersion::Autosar_00046,
    AutosarVersion::Autosar_00047,
    AutosarVersion::Autosar_00048,
    AutosarVersion::Autosar_00049,
    AutosarVersion::Autosar_00050,
    AutosarVersion::Autosar_00051,
    AutosarVersion::Autosar_00052,
    AutosarVersion::Autosar_00053,
];

pub const ALL_VERSION_MASK: u32 = 0x1F_FFFF;

#[derive(Clone)]
pub struct TypeInfo {
    pub etype: ElementType,
    /// one way to reach this type: (parent type, element name, version mask of the edge)
    pub via: Option<(ElementType, ElementName, u32)>,
    pub depth: usize,
}

pub struct SpecWalk {
    pub types: Vec<TypeInfo>,
    pub index: HashMap<ElementType, usize>,
    /// per version (index into ALL_VERSIONS): one way to reach a type using only edges that exist in that version
    pub via_in_version: Vec<HashMap<ElementType, (ElementType, ElementName)>>,
}

impl SpecWalk {
    /// BFS over all element types reachable from ROOT (in any version)
    pub fn new() -> Self {
        let mut types = Vec::new();
        let mut index = HashMap::new();
        let mut queue = VecDeque::new();
        index.insert(ElementType::ROOT, 0usize);
        types.push(TypeInfo {
            etype: ElementType::ROOT,
            via: None,
            depth: 0,
        });
        queue.push_back(ElementType::ROOT);
        while let Some(t) = queue.pop_front() {
            let depth = types[index[&t]].depth;
            for (name, sub, mask, _named) in t.sub_element_spec_iter() {
                if !index.contains_key(&sub) {
                    index.insert(sub, types.len());
                    types.push(TypeInfo {
                        etype: sub,
                        via: Some((t, name, mask)),
                        depth: depth + 1,
                    });
                    queue.push_back(sub);
                }
            }
        }
        // the same search restricted to the edges of one version at a time: a type can be reachable in a version through
        // another parent than the one the search over all versions found first
        let mut via_in_version = Vec::new();
        for v in ALL_VERSIONS {
            let bit = v as u32;
            let mut via: HashMap<ElementType, (ElementType, ElementName)> = HashMap::new();
            let mut seen: HashSet<ElementType> = HashSet::new();
            let mut queue = VecDeque::new();
            seen.insert(ElementType::ROOT);
            queue.push_back(ElementType::ROOT);
            while let Some(t) = queue.pop_front() {
                for (name, sub, mask, _named) in t.sub_element_spec_iter() {
                    if mask & bit != 0 && seen.insert(sub) {
                        via.insert(sub, (t, name));
                        queue.push_back(sub);
                    }
                }
            }
            via_in_version.push(via);
        }
        SpecWalk { types, index, via_in_version }
    }

    /// versions in which the type can be reached from the root
    pub fn versions_mask(&self, t: ElementType) -> u32 {
        if t == ElementType::ROOT {
            return ALL_VERSION_MASK;
        }
        ALL_VERSIONS.iter().enumerate().filter(|(i, _)| self.via_in_version[*i].contains_key(&t)).fold(0, |m, (_, v)| m | *v as u32)
    }

    /// path from ROOT to the type that exists in the given version (root excluded); the mask of every step is the bit of the version
    pub fn path_to_in(&self, t: ElementType, version: AutosarVersion) -> Option<Vec<(ElementType, ElementName, u32)>> {
        let via = &self.via_in_version[version_index(version)];
        let mut path = Vec::new();
        let mut cur = t;
        while cur != ElementType::ROOT {
            let (parent, name) = via.get(&cur)?;
            path.push((cur, *name, version as u32));
            cur = *parent;
        }
        path.reverse();
        Some(path)
    }

    /// path of (element name) from ROOT to the type, root excluded
    pub fn path_to(&self, t: ElementType) -> Vec<(ElementType, ElementName, u32)> {
        let mut path = Vec::new();
        let mut cur = t;
        while let Some(info) = self.index.get(&cur).map(|i| &self.types[*i]) {
            if let Some((parent, name, mask)) = info.via {
                path.push((cur, name, mask));
                cur = parent;
            } else {
                break;
            }
        }
        path.reverse();
        path
    }

    /// all distinct pattern specs reachable: (regex text, check_fn, max_length)
    pub fn patterns(&self) -> Vec<(&'static str, fn(&[u8]) -> bool, Option<usize>)> {
        let mut seen = HashSet::new();
        let mut out = Vec::new();
        let mut add = |spec: &'static CharacterDataSpec| {
            if let CharacterDataSpec::Pattern {
                check_fn,
                regex,
                max_length,
            } = spec
            {
                if seen.insert((*regex, *check_fn as usize, *max_length)) {
                    out.push((*regex, *check_fn, *max_length));
                }
            }
        };
        for info in &self.types {
            if let Some(spec) = info.etype.chardata_spec() {
                add(spec);
            }
            for (_, spec, _) in info.etype.attribute_spec_iter() {
                add(spec);
            }
        }
        out
    }
}

impl Default for SpecWalk {
    fn default() -> Self {
        Self::new()
    }
}

pub fn version_index(v: AutosarVersion) -> usize {
    (v as u32).trailing_zeros() as usize
}
