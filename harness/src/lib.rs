//! verification harness for DanielT/autosar-data (runtime monitoring)
#![allow(clippy::too_many_arguments, clippy::type_complexity, clippy::collapsible_if, clippy::collapsible_else_if)]
pub mod c01;
pub mod c08;
pub mod c14perm;
pub mod c17;
pub mod c18;
pub mod c19;
pub mod c20;
pub mod docgen;
pub mod genmodel;
pub mod hist;
pub mod histprops;
pub mod histprops2;
pub mod json;
pub mod lockmon;
pub mod monitors;
pub mod panicmon;
pub mod report;
pub mod rng;
pub mod refcmp;
pub mod refxml;
pub mod rx;
pub mod specdoc;
pub mod specwalk;
pub mod srcindex;
pub mod values;
pub mod walk;
