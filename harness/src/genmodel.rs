//! build minimal models through the public API that contain a given element type

use crate::specwalk::{SpecWalk, ALL_VERSIONS};
use autosar_data::*;
use autosar_data_specification::ElementType;

/// versions in which `t` can be reached from the root (through whatever parent)
pub fn path_versions(walk: &SpecWalk, t: ElementType) -> u32 {
    walk.versions_mask(t)
}

/// create the chain of elements from the root of `model` down to an element of type `t`; names are "n<k>"
pub fn build_to(model: &AutosarModel, walk: &SpecWalk, t: ElementType, name_seed: &mut usize) -> Result<Element, AutosarDataError> {
    let mut cur = model.root_element();
    // the path that exists in the version of the model's (first) file
    let file_version = model.files().next().map_or(AutosarVersion::LATEST, |f| f.version());
    let path = walk.path_to_in(t, file_version).unwrap_or_else(|| walk.path_to(t));
    for (etype, name, _) in path {
        let version = cur.min_version()?;
        let next = if etype.is_named_in_version(version) {
            *name_seed += 1;
            cur.create_named_sub_element(name, &format!("n{}", *name_seed))
        } else {
            cur.create_sub_element(name)
        }?;
        cur = next;
    }
    Ok(cur)
}

/// a fresh single-file model of the highest version in `mask`
pub fn model_for_mask(mask: u32) -> Option<(AutosarModel, ArxmlFile, AutosarVersion)> {
    let v = ALL_VERSIONS.iter().rev().find(|v| mask & **v as u32 != 0)?;
    let model = AutosarModel::new();
    let file = model.create_file("micro.arxml", *v).ok()?;
    Some((model, file, *v))
}

pub fn model_for_version(v: AutosarVersion) -> (AutosarModel, ArxmlFile) {
    let model = AutosarModel::new();
    let file = model.create_file("micro.arxml", v).expect("create_file on an empty model");
    (model, file)
}
