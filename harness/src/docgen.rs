//! document corpora for the DOC engine: whole-specification documents, per-element chunk documents, value variation

use crate::refcmp::child_type;
use crate::refxml::*;
use crate::rng::Rng;
use crate::specwalk::ALL_VERSIONS;
use crate::values::*;
use autosar_data::*;
use autosar_data_specification::{CharacterDataSpec, ElementType};
use std::str::FromStr;
use std::sync::{Arc, Mutex, OnceLock};

pub struct SpecDoc {
    pub version: AutosarVersion,
    pub text: String,
    pub doc: RefDoc,
    /// children of the ELEMENTS containers (and other package level content) as stand-alone pieces
    pub chunks: Vec<RefNode>,
}

static CORPUS: OnceLock<Mutex<Vec<Option<Arc<SpecDoc>>>>> = OnceLock::new();

/// the whole-specification document of a version (built once per process)
pub fn spec_doc(version: AutosarVersion, seed: u64) -> Arc<SpecDoc> {
    try_spec_doc(version, seed).expect("whole-specification document")
}

/// Err: the text serialized by the crate for an API-built model cannot be read by the reference reader
pub fn try_spec_doc(version: AutosarVersion, seed: u64) -> Result<Arc<SpecDoc>, String> {
    let idx = crate::specwalk::version_index(version);
    let corpus = CORPUS.get_or_init(|| Mutex::new(vec![None; 21]));
    if let Some(d) = corpus.lock().unwrap()[idx].clone() {
        return Ok(d);
    }
    let (_model, file) = crate::specdoc::whole_spec_model(version, seed);
    let text = file.serialize().expect("serialize whole-specification model");
    let doc = parse(text.as_bytes()).map_err(|e| format!("{e}"))?;
    let mut chunks = Vec::new();
    collect_chunks(&doc.root, &mut chunks);
    let d = Arc::new(SpecDoc { version, text, doc, chunks });
    corpus.lock().unwrap()[idx] = Some(d.clone());
    Ok(d)
}

fn collect_chunks(n: &RefNode, out: &mut Vec<RefNode>) {
    for item in &n.items {
        if let RefItem::Elem(c) = item {
            if n.name == "ELEMENTS" {
                out.push(c.clone());
            } else {
                collect_chunks(c, out);
            }
        }
    }
}

pub fn text_node(name: &str, text: &str) -> RefNode {
    RefNode {
        name: name.to_string(),
        attrs: vec![],
        items: vec![RefItem::Text(text.to_string(), 0, 0)],
        comment: None,
        line_start: 0,
        line_end: 0,
        tag_line_start: 0,
        tag_line_end: 0,
    }
}

pub fn elem_node(name: &str, children: Vec<RefNode>) -> RefNode {
    RefNode {
        name: name.to_string(),
        attrs: vec![],
        items: children.into_iter().map(RefItem::Elem).collect(),
        comment: None,
        line_start: 0,
        line_end: 0,
        tag_line_start: 0,
        tag_line_end: 0,
    }
}

pub fn root_attrs(version: AutosarVersion) -> Vec<(String, String)> {
    vec![
        ("xsi:schemaLocation".to_string(), format!("http://autosar.org/schema/r4.0 {}", version.filename())),
        ("xmlns".to_string(), "http://autosar.org/schema/r4.0".to_string()),
        ("xmlns:xsi".to_string(), "http://www.w3.org/2001/XMLSchema-instance".to_string()),
    ]
}

/// a small document that holds the given package level elements in one package
pub fn chunk_doc(version: AutosarVersion, chunks: Vec<RefNode>, pkg: &str) -> RefDoc {
    let mut root = elem_node(
        "AUTOSAR",
        vec![elem_node("AR-PACKAGES", vec![elem_node("AR-PACKAGE", vec![text_node("SHORT-NAME", pkg), elem_node("ELEMENTS", chunks)])])],
    );
    root.attrs = root_attrs(version);
    RefDoc {
        bom: false,
        standalone: None,
        root,
    }
}

/// element type of the chunks inside chunk_doc
pub fn elements_type(version: AutosarVersion) -> ElementType {
    let mut t = ElementType::ROOT;
    for n in [ElementName::ArPackages, ElementName::ArPackage, ElementName::Elements] {
        t = child_type(t, n, version).expect("AR-PACKAGES/AR-PACKAGE/ELEMENTS exist in every version");
    }
    t
}

pub fn type_of(parent: ElementType, name: &str, version: AutosarVersion) -> Option<ElementType> {
    ElementName::from_str(name).ok().and_then(|n| child_type(parent, n, version))
}

/// a text variant for a value of the given type that denotes a value inside the value space
pub fn value_text(rng: &mut Rng, spec: &CharacterDataSpec, version: AutosarVersion) -> Option<String> {
    let pad = |rng: &mut Rng, s: String| -> String {
        match rng.below(6) {
            0 => format!(" {s}"),
            1 => format!("{s}\n"),
            2 => format!("\t{s}  "),
            _ => s,
        }
    };
    Some(match spec {
        CharacterDataSpec::Enum { .. } | CharacterDataSpec::Pattern { .. } => {
            let v = valid_value(rng, spec, version)?;
            pad(rng, v.to_string())
        }
        CharacterDataSpec::String { preserve_whitespace, max_length } => {
            let pool = ["x", "hello world", "a&b", "1 < 2 > 0", "say \"hi\"", "it's", "tab\there", "line1\nline2", "\u{e4}\u{f6}\u{20ac}", "&amp;", "&#65;", "]]>", "a  b", "<!-- no comment -->", "%s", "\u{a0}nbsp first", "ideographic space last\u{3000}", "\u{2003}em spaces around\u{2003}", "next line\u{85}"];
            let s = (*rng.pick(&pool)).to_string();
            if max_length.is_some_and(|m| s.len() + 4 > m) {
                "x".to_string()
            } else if *preserve_whitespace {
                match rng.below(4) {
                    0 => format!("  {s}"),
                    1 => format!("{s} \n"),
                    _ => s,
                }
            } else {
                pad(rng, s)
            }
        }
        CharacterDataSpec::UnsignedInteger => {
            let t = (*rng.pick(&["0", "7", "007", "+5", "18446744073709551615", "4294967296", "42"])).to_string();
            pad(rng, t)
        }
        CharacterDataSpec::Float => {
            let t = (*rng.pick(&["0", "1.5", "-0.0", "1e3", "1.5E-2", ".5", "5.", "-2.25", "1e400", "-1e400", "4.9e-324", "2.5e-310", "0.30000000000000004", "123456789.125", "INF", "-INF", "NaN", "inf", "-inf"])).to_string();
            pad(rng, t)
        }
    })
}

/// replace a share of the character data and attribute values of the tree by other texts of the same value space
pub fn vary_values(rng: &mut Rng, n: &mut RefNode, etype: ElementType, version: AutosarVersion, share: (u32, u32), changed: &mut u64) {
    for (name, text) in n.attrs.iter_mut() {
        if name.starts_with("xmlns") || name.starts_with("xsi:") || name == "DEST" {
            continue;
        }
        if rng.chance(share.0, share.1) {
            if let Some(spec) = AttributeName::from_str(name).ok().and_then(|a| etype.find_attribute_spec(a)) {
                if spec.version & version as u32 != 0 {
                    if let Some(t) = value_text(rng, spec.spec, version) {
                        *text = t;
                        *changed += 1;
                    }
                }
            }
        }
    }
    let spec = etype.chardata_spec();
    let is_ref = etype.is_ref();
    let is_short_name = n.name == "SHORT-NAME";
    let only_text = n.items.len() == 1 && matches!(n.items[0], RefItem::Text(..));
    for item in n.items.iter_mut() {
        match item {
            RefItem::Elem(c) => {
                if let Some(ct) = type_of(etype, &c.name, version) {
                    vary_values(rng, c, ct, version, share, changed);
                }
            }
            RefItem::Text(t, _, _) => {
                if let (Some(spec), false, false, true) = (spec, is_ref, is_short_name, only_text) {
                    if rng.chance(share.0, share.1) {
                        if let Some(nt) = value_text(rng, spec, version) {
                            if !nt.trim_matches(crate::refcmp::is_ws).is_empty() {
                                *t = nt;
                                *changed += 1;
                            }
                        }
                    }
                }
            }
        }
    }
}

/// number of comments placed in front of inline sub elements of mixed content (evidence counter)
pub static MIXED_COMMENTS: std::sync::atomic::AtomicU64 = std::sync::atomic::AtomicU64::new(0);

/// attach comments at legal places
pub fn add_comments(rng: &mut Rng, n: &mut RefNode, share: (u32, u32), added: &mut u64) {
    let element_only = n.items.iter().all(|i| matches!(i, RefItem::Elem(_)));
    for item in n.items.iter_mut() {
        if let RefItem::Elem(c) = item {
            // comment - text - element inside mixed content is not generated (semantics undefined); a comment directly in front of
            // the start tag of an inline sub element (text - comment - element) is attached to that element like any other
            if c.comment.is_none() && rng.chance(share.0, share.1) {
                if !element_only {
                    MIXED_COMMENTS.fetch_add(1, std::sync::atomic::Ordering::Relaxed);
                }
                c.comment = Some((*rng.pick(&[" note ", "a - b", "<tag> & more", "", "x"])).to_string());
                *added += 1;
            }
            add_comments(rng, c, share, added);
        }
    }
}

pub fn random_version(rng: &mut Rng) -> AutosarVersion {
    *rng.pick(&ALL_VERSIONS)
}

/// a random chunk document of a version: 1..=k chunks, optional value variation and comments
pub fn random_chunk_doc(rng: &mut Rng, seed: u64, version: AutosarVersion, max_chunks: usize, vary: bool) -> (RefDoc, u64) {
    let sd = spec_doc(version, seed);
    let k = rng.range(1, max_chunks);
    let mut chunks = Vec::new();
    let mut names = std::collections::HashSet::new();
    for _ in 0..k {
        let c = rng.pick(&sd.chunks).clone();
        // package level names are unique in the whole-specification document
        if names.insert(c.name.clone() + &short_name_of(&c)) {
            chunks.push(c);
        }
    }
    let mut doc = chunk_doc(version, chunks, "p");
    let mut changed = 0;
    if vary {
        let et = elements_type(version);
        if let Some(RefItem::Elem(pkgs)) = doc.root.items.first_mut() {
            if let Some(RefItem::Elem(pkg)) = pkgs.items.first_mut() {
                if let Some(RefItem::Elem(elements)) = pkg.items.get_mut(1) {
                    for item in elements.items.iter_mut() {
                        if let RefItem::Elem(c) = item {
                            if let Some(ct) = type_of(et, &c.name, version) {
                                vary_values(rng, c, ct, version, (1, 3), &mut changed);
                            }
                        }
                    }
                    add_comments(rng, elements, (1, 8), &mut changed);
                }
            }
        }
        if rng.chance(1, 4) {
            doc.root.comment = Some(" file comment ".to_string());
        }
        doc.bom = rng.chance(1, 6);
        doc.standalone = *rng.pick(&[None, None, Some(true), Some(false)]);
    }
    (doc, changed)
}

pub fn short_name_of(n: &RefNode) -> String {
    for item in &n.items {
        if let RefItem::Elem(c) = item {
            if c.name == "SHORT-NAME" {
                if let Some(RefItem::Text(t, _, _)) = c.items.first() {
                    return t.clone();
                }
            }
        }
    }
    String::new()
}
