//! per-property glue for the HIST engine: profiles, pre/post monitors, verdict bookkeeping

use crate::hist::*;
use crate::json::J;
use crate::monitors::*;
use crate::panicmon::Abnormal;
use crate::report::{cpu_count, run_shards, Report};
use crate::rng::{hash_str, Rng};
use crate::specwalk::ALL_VERSIONS;
use crate::walk::*;
use autosar_data::*;
use std::collections::{BTreeMap, BTreeSet, HashMap, HashSet};

pub struct Plan {
    pub histories: usize,
    pub len: usize,
}

fn plan(prop: &str, tier: &str) -> Plan {
    let thorough = tier == "thorough";
    let (q, t, len) = match prop {
        "C03" => (8000, 150_000, 50),
        "C04" => (12000, 200_000, 50),
        "C05" => (12000, 200_000, 50),
        "C06" => (15000, 250_000, 40),
        "C10" => (8000, 120_000, 40),
        "C11" => (8000, 150_000, 50),
        "C12" => (15000, 250_000, 60),
        "C13" => (10000, 150_000, 30),
        "C14" => (10000, 150_000, 30),
        _ => (1000, 10_000, 40),
    };
    Plan {
        histories: std::env::var("VERIF_HISTORIES").ok().and_then(|s| s.parse().ok()).unwrap_or(if thorough { t } else { q }),
        len,
    }
}

const STRUCTURAL: [Kind; 20] = [
    Kind::CreateSub,
    Kind::CreateSubAt,
    Kind::CreateNamed,
    Kind::CreateNamedAt,
    Kind::GetOrCreate,
    Kind::GetOrCreateNamed,
    Kind::Copy,
    Kind::CopyAt,
    Kind::Move,
    Kind::MoveAt,
    Kind::Remove,
    Kind::RemoveKind,
    Kind::Rename,
    Kind::Sort,
    Kind::LoadBuffer,
    Kind::LoadSelf,
    Kind::EnsureChain,
    Kind::RemoveFile,
    Kind::RemoveFromFile,
    Kind::SetData,
];

fn profile_for(prop: &str, rng: &mut Rng) -> Profile {
    let base = Profile::uniform()
        .with_all(&[Kind::Readers, Kind::ModelReaders, Kind::FileReaders, Kind::Cmp], 2)
        .with_all(&[Kind::SetVersion, Kind::SetFilename, Kind::SetComment], 3)
        .with(Kind::Duplicate, 1)
        .with(Kind::SortModel, 2)
        .with(Kind::RemoveFile, 3)
        .with(Kind::CreateFile, 3)
        .with(Kind::LoadBuffer, 4)
        .with(Kind::LoadSelf, 3)
        .with(Kind::EnsureChain, 0)
        .with(Kind::MergeConflict, 0);
    match prop {
        "C03" => {
            let mut p = base.with_all(&[Kind::Move, Kind::MoveAt, Kind::Remove, Kind::Copy, Kind::CreateSub, Kind::CreateNamed], 18);
            p.stale_pct = 15;
            p
        }
        "C04" => base
            .with_all(&[Kind::CreateNamed, Kind::CreateNamedAt, Kind::Rename, Kind::Move, Kind::MoveAt, Kind::Copy, Kind::CopyAt], 20)
            .with(Kind::SetData, 14)
            .with(Kind::Remove, 12)
            .with(Kind::LoadBuffer, 6),
        "C05" => base
            .with_all(&[Kind::SetRefTarget, Kind::SetData, Kind::RemoveData], 22)
            .with_all(&[Kind::Rename, Kind::Move, Kind::Copy, Kind::Remove], 14)
            .with_all(&[Kind::SetAttr, Kind::SetAttrStr, Kind::RemoveAttr], 8),
        "C06" => {
            let mut p = base
                .with_all(&[Kind::Rename, Kind::Move, Kind::MoveAt], 30)
                .with_all(&[Kind::SetRefTarget, Kind::SetData], 16)
                .with_all(&[Kind::CreateNamed, Kind::CreateSub], 10);
            p.hostile_pct = 5;
            p.stale_pct = 1;
            p
        }
        "C10" => {
            let mut p = base
                .with_all(&[Kind::AddToFile, Kind::RemoveFromFile], 25)
                .with_all(&[Kind::CreateFile, Kind::RemoveFile, Kind::LoadBuffer], 10)
                .with_all(&[Kind::CreateNamed, Kind::CreateSub, Kind::Remove, Kind::Move], 10)
                .with(Kind::SetFilename, 6)
                .with(Kind::Duplicate, 2);
            p.stale_pct = 2;
            p
        }
        "C11" => {
            let mut p = base.with(Kind::LoadBuffer, 14).with(Kind::LoadSelf, 6).with(Kind::MergeConflict, 8);
            p.hostile_pct = if rng.chance(1, 2) { 50 } else { 25 };
            p.stale_pct = 8;
            p
        }
        "C12" => {
            let mut p = Profile::uniform();
            p.hostile_pct = 35;
            p.stale_pct = 12;
            p
        }
        "C13" => base.with_all(&[Kind::Copy, Kind::CopyAt], 40).with(Kind::Duplicate, 6).with_all(&[Kind::CreateNamed, Kind::CreateSub, Kind::SetData, Kind::SetAttr], 14),
        "C14" => base
            .with_all(&[Kind::Sort, Kind::SortModel], 25)
            .with_all(&[Kind::CreateNamed, Kind::CreateNamedAt, Kind::CreateSub, Kind::SetData, Kind::Rename], 16),
        _ => base,
    }
}

pub fn setup_monitors() {
    crate::panicmon::install();
    crate::lockmon::install();
}

/// state captured before an operation
#[derive(Default)]
pub struct Pre {
    pub full: Option<Vec<String>>,
    pub stale_place: bool,
    pub stale_receiver: bool,
    pub rho: Option<RefMap>,
    pub extra: Option<PreExtra>,
    /// models (indices) that the operation may touch; every other model must stay unchanged
    pub touched: Vec<usize>,
    pub live_before: Vec<Element>,
}

pub struct RefMap {
    pub model: usize,
    /// (reference element, text, target object)
    pub refs: Vec<(Element, String, Option<Element>)>,
    /// the renamed/moved element and its identifiable descendants
    pub affected: HashSet<Element>,
    pub subtree: HashSet<Element>,
    pub src_model: usize,
    /// path of the renamed/moved element before the operation (if it is identifiable)
    pub old_path: Option<String>,
}

pub enum PreExtra {
    Copy { src: Element, src_dump: String, src_version: AutosarVersion, dest_version: AutosarVersion, expected: Option<String> },
    Sort { root: Element, canon: String, conformed: bool },
    RemoveFile { model: usize, file: ArxmlFile, only_f: Vec<Element>, others_text: Vec<(ArxmlFile, String)>, removed_label: String },
    Duplicate { texts: Vec<(String, String)> },
}

fn resolve_unique(t: &Tree, idx: &ExpectedIndex, path: &str) -> Option<Element> {
    match idx.map.get(path) {
        Some(ns) if ns.len() == 1 => Some(t.nodes[ns[0]].elem.clone()),
        _ => None,
    }
}

fn pre_state(prop: &str, w: &World, op: &Op) -> Pre {
    let mut pre = Pre::default();
    match prop {
        "C03" => {
            pre.stale_place = op.place_dependent_handles().iter().any(|h| !w.is_live(*h));
            pre.stale_receiver = op.receiver().is_some_and(|h| !w.is_live(h));
            if pre.stale_place || pre.stale_receiver {
                pre.full = Some(w.models.iter().map(dump_full).collect());
            }
        }
        "C11" => {
            pre.full = Some(w.models.iter().map(dump_full).collect());
        }
        "C06" => {
            let (elem, dest) = match op {
                Op::Rename { e, .. } => (Some(*e), None),
                Op::Move { p, src } | Op::MoveAt { p, src, .. } => (Some(*src), Some(*p)),
                _ => (None, None),
            };
            if let Some(e) = elem {
                let el = &w.elems[e];
                if let Some(m) = w.home(el) {
                    let t = &w.trees[m];
                    let idx = expected_index(t);
                    let ni = t.index[el];
                    let sub = t.subtree(ni);
                    let affected: HashSet<Element> = sub.iter().filter(|i| t.nodes[**i].elem.is_identifiable()).map(|i| t.nodes[*i].elem.clone()).collect();
                    let subtree: HashSet<Element> = sub.iter().map(|i| t.nodes[*i].elem.clone()).collect();
                    let refs = t
                        .nodes
                        .iter()
                        .filter_map(|n| ref_text(&n.elem).map(|text| (n.elem.clone(), text.clone(), resolve_unique(t, &idx, &text))))
                        .collect();
                    let dest_model = dest.and_then(|d| w.home(&w.elems[d])).unwrap_or(m);
                    pre.rho = Some(RefMap {
                        model: dest_model,
                        refs,
                        affected,
                        subtree,
                        src_model: m,
                        old_path: if el.is_identifiable() { Some(t.oracle_path(ni)) } else { None },
                    });
                }
            }
        }
        "C10" | "C13" | "C14" => crate::histprops2::pre_extra(prop, w, op, &mut pre),
        _ => {}
    }
    pre
}

pub fn first_diff(a: &str, b: &str) -> String {
    for (n, (la, lb)) in a.lines().zip(b.lines()).enumerate() {
        if la != lb {
            return format!("first difference at line {}: before {la:?} / after {lb:?}", n + 1);
        }
    }
    format!("line counts differ: {} vs {}", a.lines().count(), b.lines().count())
}

pub struct StepCtx<'a> {
    pub prop: &'a str,
    pub seen: Seen,
    pub seen_paths: BTreeSet<String>,
    pub err_variants: BTreeMap<String, u64>,
}

/// does the document contain two identifiable elements of different kinds with the same AUTOSAR path?
fn document_has_two_kinds_under_one_path(text: &str) -> bool {
    use crate::refxml::{RefItem, RefNode};
    fn walk(n: &RefNode, prefix: &str, seen: &mut HashMap<String, String>, hit: &mut bool) {
        let mut path = prefix.to_string();
        if let Some(RefItem::Elem(sn)) = n.items.first() {
            if sn.name == "SHORT-NAME" {
                let name: String = sn.items.iter().filter_map(|i| if let RefItem::Text(t, _, _) = i { Some(t.trim().to_string()) } else { None }).collect();
                path = format!("{prefix}/{name}");
                match seen.get(&path) {
                    Some(kind) if *kind != n.name => *hit = true,
                    Some(_) => {}
                    None => {
                        seen.insert(path.clone(), n.name.clone());
                    }
                }
            }
        }
        for i in &n.items {
            if let RefItem::Elem(c) = i {
                walk(c, &path, seen, hit);
            }
        }
    }
    let Ok(doc) = crate::refxml::parse(text.as_bytes()) else { return false };
    let (mut seen, mut hit) = (HashMap::new(), false);
    walk(&doc.root, "", &mut seen, &mut hit);
    hit
}

fn post_check(ctx: &mut StepCtx, w: &World, op: &Op, pre: &Pre, out: &Outcome) -> Vec<Viol> {
    let mut viols = Vec::new();
    let mk = |rule: &str, pred: &str, detail: String| Viol {
        rule: rule.into(),
        pred: pred.into(),
        detail,
    };
    match ctx.prop {
        "C03" => {
            for (m, model) in w.models.iter().enumerate() {
                ctx.seen.elements += w.trees[m].nodes.len() as u64;
                viols.extend(m_tree(model, &w.trees[m], true));
            }
            if pre.stale_place && out.is_ok() {
                viols.push(mk("stale/place-dependent-call-succeeds", &format!("{:?}", op.kind()), "a call that depends on the place of an element which is no longer part of any model returned Ok".into()));
            }
            if let Some(before) = &pre.full {
                for (m, model) in w.models.iter().enumerate().take(before.len()) {
                    let after = dump_full(model);
                    if after != before[m] {
                        viols.push(mk(
                            "stale/call-through-stale-handle-changes-live-model",
                            &format!("{:?}", op.kind()),
                            format!("model m{m} changed: {}", first_diff(&before[m], &after)),
                        ));
                    }
                }
            }
            // probe battery on a few stale handles
            let n = w.elems.len();
            let mut probed = 0;
            let mut k = (w.log.len() * 7919) % n.max(1);
            for _ in 0..n.min(40) {
                k = (k + 1) % n;
                if !w.is_live(k) {
                    let e = &w.elems[k];
                    probed += 1;
                    let mut bad = Vec::new();
                    if e.parent().is_ok() {
                        bad.push("parent");
                    }
                    if e.model().is_ok() {
                        bad.push("model");
                    }
                    if e.path().is_ok() {
                        bad.push("path");
                    }
                    if e.file_membership().is_ok() {
                        bad.push("file_membership");
                    }
                    if e.min_version().is_ok() {
                        bad.push("min_version");
                    }
                    if e.named_parent().is_ok() {
                        bad.push("named_parent");
                    }
                    if !bad.is_empty() {
                        viols.push(mk("stale/request-succeeds", &bad.join("+"), format!("{}: {bad:?} return Ok through a handle to an element that is not part of any model", w.desc(k))));
                    }
                    if probed >= 4 {
                        break;
                    }
                }
            }
            ctx.seen.restricted += probed;
        }
        "C04" => {
            for (m, model) in w.models.iter().enumerate() {
                let skip = (w.log.len() * 31) % ctx.seen_paths.len().max(1);
                let probes: Vec<String> = ctx.seen_paths.iter().skip(skip).take(24).cloned().collect();
                viols.extend(m_index(model, &w.trees[m], &probes, &mut ctx.seen));
            }
            for t in &w.trees {
                for (i, n) in t.nodes.iter().enumerate() {
                    if n.elem.is_identifiable() && ctx.seen_paths.len() < 400 {
                        ctx.seen_paths.insert(t.oracle_path(i));
                    }
                }
            }
        }
        "C05" => {
            for (m, model) in w.models.iter().enumerate() {
                viols.extend(m_refs(model, &w.trees[m], &mut ctx.seen));
            }
        }
        "C06" => {
            if let (Some(rho), true) = (&pre.rho, out.is_ok()) {
                let t = &w.trees[rho.model];
                let idx = expected_index(t);
                let cross = rho.model != rho.src_model;
                for (r, text, target) in &rho.refs {
                    let new_text = ref_text(r);
                    let in_subtree = rho.subtree.contains(r);
                    if cross && !in_subtree {
                        // references that stay behind in the source model keep their text
                        if new_text.as_deref() != Some(text.as_str()) {
                            viols.push(mk("follow/unrelated-reference-changed", "cross-model", format!("reference text changed from {text} to {new_text:?}")));
                        }
                        continue;
                    }
                    let designated_affected = target.as_ref().is_some_and(|tg| rho.affected.contains(tg));
                    if designated_affected {
                        ctx.seen.references += 1;
                        let tg = target.as_ref().unwrap();
                        let now = new_text.as_deref().and_then(|nt| resolve_unique(t, &idx, nt));
                        let ambiguous = new_text.as_deref().is_some_and(|nt| idx.map.get(nt).is_some_and(|v| v.len() > 1));
                        if now.as_ref() != Some(tg) && !ambiguous {
                            viols.push(mk(
                                "follow/reference-lost-its-target",
                                if cross { "cross-model" } else { "same-model" },
                                format!("reference with text {text} designated {} before {:?}; afterwards its text is {new_text:?} which designates {:?}", tg.element_name(), op.kind(), now.map(|e| e.element_name())),
                            ));
                        } else if !ambiguous {
                            match r.get_reference_target() {
                                Ok(x) if x == *tg => {}
                                Ok(x) => viols.push(mk("follow/get_reference_target-differs", "", format!("get_reference_target returns another element ({})", x.element_name()))),
                                Err(_) => {
                                    // DEST may have been wrong all along; only judge if it resolved before
                                }
                            }
                        }
                    } else if !cross || in_subtree {
                        if !(cross && in_subtree) && new_text.as_deref() != Some(text.as_str()) {
                            let below_old = rho.old_path.as_ref().is_some_and(|op| text.strip_prefix(op.as_str()).is_some_and(|rest| rest.is_empty() || rest.starts_with('/')));
                            let pred = if target.is_none() && below_old { "dangling-reference-below-old-path" } else { "same-model" };
                            viols.push(mk("follow/unrelated-reference-changed", pred, format!("reference text changed from {text} to {new_text:?} although it did not designate the renamed/moved element or an element below it (it designated {})", if target.is_some() { "another element" } else { "nothing" })));
                        }
                    }
                }
            }
        }
        "C11" => {
            // EnsureChain is a sequence of calls made by the harness, not one library call
            if let (Some(before), Some(variant), false) = (&pre.full, out.err_variant(), op.kind() == Kind::EnsureChain) {
                *ctx.err_variants.entry(variant.to_string()).or_insert(0) += 1;
                for (m, model) in w.models.iter().enumerate().take(before.len()) {
                    let after = dump_full(model);
                    if after != before[m] {
                        let strip = |d: &str| -> String {
                            // the element tree without file membership annotations
                            d.split("--files").next().unwrap_or("").lines().map(|l| l.split(" files=[").next().unwrap_or(l)).collect::<Vec<_>>().join("\n")
                        };
                        let section = if strip(&before[m]) != strip(&after) {
                            "tree-content"
                        } else if before[m].split("--files").next() != after.split("--files").next() {
                            "file-sets-of-elements"
                        } else {
                            "tables"
                        };
                        // cause known for one kind of rejected load: the document itself holds two elements of different kinds under
                        // one path (the check made before the merge sees only one of them, the registration after the merge fails)
                        let cause = match op {
                            Op::LoadBuffer { text, .. } if variant == "OverlappingDataError" && document_has_two_kinds_under_one_path(text) => ":document-with-two-kinds-under-one-path",
                            _ => "",
                        };
                        let section = format!("{section}{cause}");
                        viols.push(mk(
                            "failed-call-has-effect",
                            &format!("{:?}:{variant}:{section}", op.kind()),
                            format!("the call returned Err({variant}) but model m{m} changed: {}", first_diff(&before[m], &after)),
                        ));
                    }
                }
            }
        }
        "C10" | "C13" | "C14" => viols.extend(crate::histprops2::post_extra(ctx, w, op, pre, out)),
        _ => {}
    }
    // the known C13 finding seen through the file monitors: duplicate() of a model that holds content which is not valid in the
    // version of its own file drops that content and assigns the file sets of the copy to the wrong elements from there on
    if ctx.prop == "C10" && !viols.is_empty() {
        if let Op::Duplicate { m } = op {
            let invalid_original = w.models.get(*m).is_some_and(|orig| orig.files().any(|f| !f.check_version_compatibility(f.version()).0.is_empty()));
            if invalid_original {
                for v in viols.iter_mut().filter(|v| v.rule.starts_with("files/")) {
                    v.pred = format!("{}{}original-has-content-not-valid-in-the-version-of-its-file", v.pred, if v.pred.is_empty() { "" } else { "+" });
                }
            }
        }
    }
    viols
}

static KNOWN: std::sync::OnceLock<Vec<crate::report::KnownFinding>> = std::sync::OnceLock::new();

pub fn is_known(prop: &str, sig: &str) -> bool {
    KNOWN.get_or_init(crate::report::load_known_findings).iter().any(|k| k.property == prop && k.sig == sig)
}

pub fn abnormal_violation(ab: &Abnormal, op: &Op) -> Viol {
    Viol {
        rule: match ab {
            Abnormal::SelfDeadlock(_) => "single-thread/hang".into(),
            _ => "single-thread/panic".into(),
        },
        pred: format!("{}:{:?}", ab.signature(), op.kind()),
        detail: ab.describe(),
    }
}

pub fn grow_profile() -> Profile {
    Profile {
        weights: vec![
            (Kind::CreateSub, 40),
            (Kind::CreateNamed, 25),
            (Kind::SetData, 25),
            (Kind::SetAttr, 8),
            (Kind::SetRefTarget, 6),
            (Kind::SetComment, 2),
        ],
        stale_pct: 0,
        hostile_pct: 0,
        primary_pct: 100,
    }
}

/// returns the world, the profile of the history and the number of leading growth steps
pub fn initial_world(prop: &str, rng: Rng, case: u64) -> (World, Profile, usize) {
    let mut w = World::new(rng);
    let mut r2 = Rng::derive(case, "init", 7);
    let prof = profile_for(prop, &mut r2);
    if prop == "C14" || prop == "C12" {
        // C14 judges sort results, C12 wants the panics: cyclic names are a known finding with its own witness
        w.masks.no_cyclic_names = true;
    }
    if prop == "C11" {
        // failing loads are the point of C11
        w.masks.no_failing_merge = false;
        w.masks.no_unsorted_merge = false;
    }
    // (C10 keeps failing and unsorted merges masked: the known C09/C11 findings - merges that duplicate elements, roll backs that
    // leave file sets behind - would be re-reported through the membership monitors; a broken roll back is C11's subject)
    if prop == "C03" {
        // tree shape does not depend on unique paths: explore unsorted, partial and failing merges as well
        w.masks.no_unsorted_merge = false;
        w.masks.no_failing_merge = false;
    }
    let nfiles = match prop {
        "C10" => r2.range(1, 4),
        _ => *r2.pick(&[1, 1, 2, 3]),
    };
    let v0 = *r2.pick(&ALL_VERSIONS[6..]);
    let versions = if r2.chance(1, 3) { vec![v0, *r2.pick(&ALL_VERSIONS[6..])] } else { vec![v0] };
    seed_model_small(&mut w, nfiles, &versions);
    if r2.chance(1, 2) {
        let v = if r2.chance(2, 3) { versions[0] } else { *r2.pick(&ALL_VERSIONS[6..]) };
        seed_model_small(&mut w, 1, &[v]);
    }
    if matches!(prop, "C13" | "C10" | "C04" | "C05") && r2.chance(1, 3) {
        // a model whose file sets come from merging loaded partial views (not from add_to_file); C13: duplicate() of it
        if seed_model_loaded(&mut w, v0).is_some() && prop == "C13" {
            w.pending_duplicate_of_last_model();
        }
    }
    w.refresh();
    let grow = if r2.chance(1, 2) { r2.range(20, 90) } else { 0 };
    (w, prof, grow)
}

pub struct CaseResult {
    pub viols: Vec<(Viol, String)>,
    pub log: Vec<String>,
    pub mutations: u64,
    pub steps: u64,
}

pub fn run_case(prop: &str, seed: u64, case: u64, len: usize, rep: &mut Report, verbose: bool) -> CaseResult {
    run_case_with(prop, seed, case, len, rep, verbose, None)
}

/// `script`: enumerated mode - the initial world is the fixed small universe of `enum_world` and the k-th call is the
/// script[k]-th entry of `enum_candidates` of the state reached (the history ends when the script does)
pub fn run_case_with(prop: &str, seed: u64, case: u64, len: usize, rep: &mut Report, verbose: bool, script: Option<&[usize]>) -> CaseResult {
    crate::lockmon::activate(true);
    let rng = Rng::derive(seed, prop, case);
    let (mut w, prof, grow_steps) = match script {
        None => initial_world(prop, rng, case ^ seed.rotate_left(17)),
        Some(_) => enum_world(prop, rng),
    };
    let len = script.map_or(len, |s| s.len());
    let grow_prof = grow_profile();
    let mut ctx = StepCtx {
        prop,
        seen: Seen::default(),
        seen_paths: BTreeSet::new(),
        err_variants: BTreeMap::new(),
    };
    let mut result = CaseResult {
        viols: Vec::new(),
        log: Vec::new(),
        mutations: 0,
        steps: 0,
    };
    // the initial state must satisfy the monitors as well
    let init_op = Op::ModelReaders { m: 0 };
    let init_viols = post_check(&mut ctx, &w, &init_op, &Pre::default(), &Outcome::Ok(String::new()));
    for v in init_viols {
        result.viols.push((v, "initial-model".to_string()));
    }
    let mut state_hashes = Vec::new();
    if result.viols.is_empty() {
        for step in 0..(len + grow_steps) {
            if verbose && std::env::var("VERIF_STOP_AT").ok().and_then(|s| s.parse::<usize>().ok()) == Some(step) {
                break;
            }
            // the generator itself calls public read-only API (list_valid_sub_elements, calc_element_insert_range, ...)
            let gen = match script {
                None => crate::panicmon::catch(|| w.gen_op(if step < grow_steps { &grow_prof } else { &prof })),
                Some(sc) => {
                    let cands = enum_candidates(&w, prop);
                    if sc[step] >= cands.len() {
                        // the script addresses a candidate that does not exist in this state: the history is not a member of the enumeration
                        result.steps = u64::MAX;
                        break;
                    }
                    Ok(cands[sc[step]].clone())
                }
            };
            let op = match gen {
                Ok(op) => op,
                Err(ab) => {
                    crate::lockmon::reset_held();
                    let line = format!("{step:3} <generator probe: list_valid_sub_elements / calc_element_insert_range / readers> -> ABNORMAL({})", ab.describe());
                    w.log.push(line);
                    if prop == "C12" {
                        result.viols.push((abnormal_violation(&ab, &Op::ModelReaders { m: 0 }), "GeneratorProbe".to_string()));
                    } else {
                        rep.count("histories_cut_short_by_panic_or_hang(belongs to C12)", 1);
                    }
                    break;
                }
            };
            let text = w.describe(&op);
            let pre = pre_state(prop, &w, &op);
            let out = w.exec(&op);
            w.refresh();
            let line = format!("{step:3} {text} -> {}", out.short());
            if verbose {
                println!("{line}");
            }
            w.log.push(line);
            result.steps += 1;
            rep.count(&format!("op.{:?}.{}", op.kind(), if out.is_ok() { "ok" } else if out.is_err() { "err" } else { "abnormal" }), 1);
            if out.is_ok() && STRUCTURAL.contains(&op.kind()) {
                result.mutations += 1;
            }
            if let Outcome::Abnormal(ab) = &out {
                if prop == "C12" {
                    result.viols.push((abnormal_violation(ab, &op), format!("{:?}", op.kind())));
                } else {
                    rep.count("histories_cut_short_by_panic_or_hang(belongs to C12)", 1);
                }
                break;
            }
            if prop == "C12" {
                if out.err_variant() == Some("ParentElementLocked") {
                    let denied = crate::lockmon::take_self_denied();
                    let pred = format!("{:?}:{}", op.kind(), denied.first().cloned().unwrap_or_else(|| "no-self-conflict-seen".into()));
                    let known = is_known(prop, &format!("{prop}:single-thread/spurious-parent-locked:{pred}:after={:?}", op.kind()));
                    result.viols.push((
                        Viol {
                            rule: "single-thread/spurious-parent-locked".into(),
                            pred: format!("{:?}:{}", op.kind(), denied.first().cloned().unwrap_or_else(|| "no-self-conflict-seen".into())),
                            detail: format!("the call returned ParentElementLocked although no other operation is in progress; lock requests denied by the thread's own holdings: {denied:?}"),
                        },
                        format!("{:?}", op.kind()),
                    ));
                    if !known || result.viols.len() > 20 {
                        break;
                    }
                }
                let _ = crate::lockmon::take_self_denied();
            }
            let viols = post_check(&mut ctx, &w, &op, &pre, &out);
            if !viols.is_empty() {
                let after = format!("{:?}", op.kind());
                let all_known = viols.iter().all(|v| is_known(prop, &format!("{prop}:{}:{}:after={after}", v.rule, v.pred)));
                // a duplicate made from an original with content that is invalid for its own file has misplaced file sets: every
                // later call on it would re-report the same known finding under another operation's name
                let poisoned = viols.iter().any(|v| v.pred.contains("original-has-content-not-valid-in-the-version-of-its-file"));
                for v in viols {
                    result.viols.push((v, after.clone()));
                }
                // the state after a known finding is still meaningful for most monitors: go on; otherwise stop here
                if !all_known || poisoned || result.viols.len() > 20 {
                    break;
                }
            }
            if step % 8 == 0 {
                state_hashes.push(hash_str(&dump_tree(&w.trees[0], &DumpOpts::default())));
            }
        }
    }
    for h in state_hashes {
        rep.distinct_in("model_states", h);
    }
    rep.count("monitor.elements_inspected", ctx.seen.elements);
    rep.count("monitor.identifiables_inspected", ctx.seen.identifiables);
    rep.count("monitor.references_inspected", ctx.seen.references);
    rep.count("monitor.stale_handles_probed_or_restricted_sets", ctx.seen.restricted);
    for (k, n) in &ctx.err_variants {
        rep.count(&format!("failing_calls.{k}"), *n);
        rep.count("failing_calls_checked", *n);
    }
    rep.count("lock_events_observed", 0);
    result.log = w.log.clone();
    if verbose && std::env::var("VERIF_DUMP").is_ok() {
        for (m, t) in w.trees.iter().enumerate() {
            println!("---- final tree of m{m}\n{}", dump_tree(t, &DumpOpts { membership: true, ..Default::default() }));
        }
    }
    crate::lockmon::activate(false);
    result
}

/// the fixed small universe of the enumerated mode: one model, two files; packages A and B (A holds an ECU-INSTANCE A, a
/// SYSTEM B with one reference to the ECU-INSTANCE and one dangling reference, and a sub package C; B holds an empty ELEMENTS)
pub fn enum_world(prop: &str, rng: Rng) -> (World, Profile, usize) {
    let mut w = World::new(rng);
    let mut r2 = Rng::derive(1, "enum", 1);
    let prof = profile_for(prop, &mut r2);
    w.masks.no_cyclic_names = true;
    let model = AutosarModel::new();
    let v = AutosarVersion::Autosar_00050;
    let f1 = model.create_file("enum1.arxml", v).unwrap();
    let f2 = model.create_file("enum2.arxml", v).unwrap();
    w.intern_file(&f1);
    w.intern_file(&f2);
    let pkgs = model.root_element().create_sub_element(ElementName::ArPackages).unwrap();
    let pa = pkgs.create_named_sub_element(ElementName::ArPackage, "A").unwrap();
    let pb = pkgs.create_named_sub_element(ElementName::ArPackage, "B").unwrap();
    let ea = pa.create_sub_element(ElementName::Elements).unwrap();
    let ecu = ea.create_named_sub_element(ElementName::EcuInstance, "A").unwrap();
    let sys = ea.create_named_sub_element(ElementName::System, "B").unwrap();
    let fx = sys.create_sub_element(ElementName::FibexElements).unwrap();
    let r1 = fx.create_sub_element(ElementName::FibexElementRefConditional).and_then(|c| c.create_sub_element(ElementName::FibexElementRef)).unwrap();
    r1.set_reference_target(&ecu).unwrap();
    let r2e = fx.create_sub_element(ElementName::FibexElementRefConditional).and_then(|c| c.create_sub_element(ElementName::FibexElementRef)).unwrap();
    let _ = r2e.set_attribute(AttributeName::Dest, CharacterData::Enum(autosar_data_specification::EnumItem::EcuInstance));
    let _ = r2e.set_character_data("/B/A");
    let sub = pa.create_sub_element(ElementName::ArPackages).unwrap();
    let _ = sub.create_named_sub_element(ElementName::ArPackage, "C").unwrap();
    let _ = pb.create_sub_element(ElementName::Elements).unwrap();
    if matches!(prop, "C10" | "C13") {
        // file sets of their own: package B lives in the second file only
        let _ = pb.remove_from_file(&f1);
    }
    w.add_model(model);
    w.refresh();
    (w, prof, 0)
}

/// all calls of the enumerated mode in the current state, in a deterministic order (derived from the pre-order walk)
pub fn enum_candidates(w: &World, prop: &str) -> Vec<Op> {
    let mut out = Vec::new();
    let Some(t) = w.trees.first() else { return out };
    let id = |e: &Element| w.elem_ids.get(e).copied();
    let mut ident: Vec<usize> = Vec::new();
    let mut containers: Vec<(usize, ElementName)> = Vec::new();
    let mut refs: Vec<usize> = Vec::new();
    for n in &t.nodes {
        let Some(i) = id(&n.elem) else { continue };
        let name = n.elem.element_name();
        if n.elem.is_identifiable() {
            ident.push(i);
        }
        if name == ElementName::ArPackages || name == ElementName::Elements {
            containers.push((i, name));
        }
        if n.elem.element_type().is_ref() {
            refs.push(i);
        }
    }
    // C11 also gets a name of maximal length: a collision then needs a suffix that no longer fits, which makes calls fail late
    let long = crate::values::long_name(128);
    let names: Vec<&str> = if prop == "C11" { vec!["A", "B", long.as_str()] } else { vec!["A", "B"] };
    for e in &ident {
        for n in &names {
            out.push(Op::Rename { e: *e, item: n.to_string() });
        }
    }
    for (c, kind) in &containers {
        let child = if *kind == ElementName::ArPackages { ElementName::ArPackage } else { ElementName::EcuInstance };
        for n in &names {
            out.push(Op::CreateNamed { p: *c, name: child, item: n.to_string() });
        }
        for e in &ident {
            out.push(Op::Move { p: *c, src: *e });
            out.push(Op::Copy { p: *c, src: *e });
        }
        if let Some(first) = ident.first() {
            out.push(Op::MoveAt { p: *c, src: *first, pos: 0 });
        }
    }
    for e in &ident {
        if let Ok(Some(p)) = w.elems[*e].parent() {
            if let Some(pi) = id(&p) {
                out.push(Op::Remove { p: pi, child: *e });
            }
        }
    }
    for r in &refs {
        for e in &ident {
            out.push(Op::SetRefTarget { e: *r, target: *e });
        }
        out.push(Op::SetData { e: *r, value: CharacterData::String("/B/B".to_string()) });
        out.push(Op::RemoveData { e: *r });
    }
    out.push(Op::SortModel { m: 0 });
    for (fi, _) in w.files.iter().enumerate().take(2) {
        if let Some(e) = ident.get(1) {
            out.push(Op::AddToFile { e: *e, f: fi });
            out.push(Op::RemoveFromFile { e: *e, f: fi });
        }
    }
    out.push(Op::RemoveFile { m: 0, f: 1 });
    out
}

/// enumerated mode: every history of `depth` calls over the small universe (first level complete; deeper levels complete
/// up to `cap` histories, beyond that evenly spaced), each followed by the monitors of the property after every call
pub fn run_enumerated(prop: &str, rep: &mut Report, depth: usize, cap: usize) {
    let seed = rep.seed;
    // number of candidates in the initial state, and an upper bound for later states (the model grows by at most one element per call)
    let (w0, _, _) = enum_world(prop, Rng::new(1));
    let n0 = enum_candidates(&w0, prop).len();
    drop(w0);
    let width = n0 + 12 * depth;
    let total: usize = (0..depth).fold(1usize, |a, _| a.saturating_mul(width));
    let stride = total.div_ceil(cap).max(1);
    let shards = 64;
    let prop_owned = prop.to_string();
    crate::report::run_shards(rep, shards, crate::report::cpu_count(), 64, |shard, sub| {
        let prop = prop_owned.as_str();
        let mut k = shard * stride;
        while k < total {
            // decode k into a script (most significant digit first, so that evenly spaced k vary the later calls most)
            let mut script = vec![0usize; depth];
            let mut x = k;
            for d in (0..depth).rev() {
                script[d] = x % width;
                x /= width;
            }
            let res = run_case_with(prop, seed, k as u64, depth, sub, false, Some(&script));
            if res.steps != u64::MAX {
                sub.count("enumerated.histories", 1);
                sub.count("enumerated.calls", res.steps);
                sub.eval(if res.mutations > 0 { Some(hash_str(&res.log.join("\n")) ^ 0x5eed) } else { None });
                for (v, after) in res.viols {
                    let sig = format!("{prop}:{}:{}:after={after}", v.rule, v.pred);
                    sub.violation(
                        &v.rule,
                        &sig,
                        &format!("{} (enumerated history {script:?})\n  history:\n    {}", v.detail, res.log.join("\n    ")),
                        J::obj()
                            .with("engine", J::s("hist"))
                            .with("property", J::s(prop))
                            .with("seed", J::Int(seed as i64))
                            .with("case", J::Int(k as i64))
                            .with("len", J::Int(depth as i64))
                            .with("script", J::Arr(script.iter().map(|x| J::Int(*x as i64)).collect()))
                            .with("history", J::arr_of_str(res.log.iter().cloned())),
                    );
                }
            }
            k += shards * stride;
        }
    });
    rep.extra.insert("enumerated.candidates_in_the_initial_state".into(), J::Int(n0 as i64));
    rep.extra.insert(format!("enumerated.stride_at_depth_{depth}"), J::Int(stride as i64));
    rep.require("enumerated.histories", 1_000);
}

/// witness of the known C04 finding that the generators avoid: copying or moving a container that is not identifiable itself
/// (ELEMENTS, AR-PACKAGES ...) to a place where one of its identifiable children meets an element of the same name
fn c04_container_witness(rep: &mut Report) {
    for moving in [false, true] {
        let model = AutosarModel::new();
        let _ = model.create_file("w.arxml", AutosarVersion::Autosar_00050);
        let build = || -> Result<(Element, Element), AutosarDataError> {
            let pkgs = model.root_element().create_sub_element(ElementName::ArPackages)?;
            let p = pkgs.create_named_sub_element(ElementName::ArPackage, "p")?;
            let elements = p.create_sub_element(ElementName::Elements)?;
            elements.create_named_sub_element(ElementName::System, "x")?;
            let q = pkgs.create_named_sub_element(ElementName::ArPackage, "q")?;
            q.create_sub_element(ElementName::ArPackages)?.create_named_sub_element(ElementName::ArPackage, "x")?;
            Ok((elements, q))
        };
        let Ok((elements, q)) = build() else {
            rep.inconclusive("C04 witness: cannot build the model");
            return;
        };
        let r = if moving { q.move_element_here(&elements).map(|_| ()) } else { q.create_copied_sub_element(&elements).map(|_| ()) };
        rep.count("container_collision_witness.calls", 1);
        let t = Tree::of_model(&model);
        let mut seen = Seen::default();
        let viols = m_index(&model, &t, &[], &mut seen);
        let op = if moving { "Move" } else { "Copy" };
        if r.is_ok() {
            for v in viols.iter().filter(|v| v.rule == "index/duplicate-path").take(1) {
                rep.violation(
                    &v.rule,
                    &format!("C04:index/duplicate-path:container-with-a-colliding-child-name:after={op}"),
                    &format!("q.{}(ELEMENTS of p) succeeds although /q/x exists already: {}", if moving { "move_element_here" } else { "create_copied_sub_element" }, v.detail),
                    J::obj().with("engine", J::s("c04-witness")).with("op", J::s(op)),
                );
            }
        }
    }
}

/// witness of the known C11 finding about documents that hold two elements of different kinds under one path
fn c11_two_kinds_witness(rep: &mut Report) {
    let hdr = "<?xml version=\"1.0\" encoding=\"utf-8\"?>\n<AUTOSAR xsi:schemaLocation=\"http://autosar.org/schema/r4.0 AUTOSAR_00050.xsd\" xmlns=\"http://autosar.org/schema/r4.0\" xmlns:xsi=\"http://www.w3.org/2001/XMLSchema-instance\">";
    let base = format!("{hdr}<AR-PACKAGES><AR-PACKAGE><SHORT-NAME>p</SHORT-NAME></AR-PACKAGE></AR-PACKAGES></AUTOSAR>");
    let doc = format!("{hdr}<AR-PACKAGES><AR-PACKAGE><SHORT-NAME>q</SHORT-NAME><ELEMENTS><SYSTEM><SHORT-NAME>x</SHORT-NAME></SYSTEM><ECU-INSTANCE><SHORT-NAME>x</SHORT-NAME></ECU-INSTANCE></ELEMENTS></AR-PACKAGE></AR-PACKAGES></AUTOSAR>");
    let model = AutosarModel::new();
    if model.load_buffer(base.as_bytes(), "base.arxml", true).is_err() {
        rep.inconclusive("C11 witness: cannot load the base document");
        return;
    }
    let before = dump_full(&model);
    let r = model.load_buffer(doc.as_bytes(), "two.arxml", true);
    rep.count("two_kinds_witness.calls", 1);
    if let Err(e) = r {
        let after = dump_full(&model);
        if after != before && document_has_two_kinds_under_one_path(&doc) {
            let variant = crate::hist::err_variant(&e);
            let strip = |d: &str| -> String { d.split("--files").next().unwrap_or("").lines().map(|l| l.split(" files=[").next().unwrap_or(l)).collect::<Vec<_>>().join("\n") };
            let section = if strip(&before) != strip(&after) { "tree-content" } else if before.split("--files").next() != after.split("--files").next() { "file-sets-of-elements" } else { "tables" };
            rep.violation(
                "failed-call-has-effect",
                &format!("C11:failed-call-has-effect:LoadBuffer:{variant}:{section}:document-with-two-kinds-under-one-path:after=LoadBuffer"),
                &format!("load_buffer of a document with /q/x as SYSTEM and as ECU-INSTANCE into a model that holds package p returns Err({variant}) but the model changed: {}", first_diff(&before, &after)),
                J::obj().with("engine", J::s("c11-witness")),
            );
        }
    }
}

pub fn run(prop: &str, rep: &mut Report, tier: &str) {
    setup_monitors();
    let plan = plan(prop, tier);
    let shards = 64usize;
    let per = plan.histories.div_ceil(shards);
    let seed = rep.seed;
    rep.rule = format!(
        "random API histories ({} calls each, op mix biased for {prop}) on seeded + specification-grown models (1-4 files, 1-3 models in the pool), monitors evaluated after every call; a history is non-trivial if it contains >=1 successful structural mutation; distinct by hash of its call log",
        plan.len
    );
    let prop_owned = prop.to_string();
    run_shards(rep, shards, cpu_count(), 64, |shard, sub| {
        for j in 0..per {
            let case = (shard * per + j) as u64;
            if case as usize >= plan.histories {
                break;
            }
            let r = run_case(&prop_owned, seed, case, plan.len, sub, false);
            let h = hash_str(&r.log.join("\n"));
            sub.eval(if r.mutations > 0 { Some(h) } else { None });
            sub.count("calls", r.steps);
            sub.count("successful_structural_mutations", r.mutations);
            if case < 2 {
                sub.sample(J::obj().with("case", J::Int(case as i64)).with("calls", J::arr_of_str(r.log.iter().take(25).cloned())));
            }
            for (v, after) in r.viols {
                let sig = format!("{prop_owned}:{}:{}:after={after}", v.rule, v.pred);
                let tail: Vec<String> = r.log.iter().rev().take(12).rev().cloned().collect();
                sub.violation(
                    &v.rule,
                    &sig,
                    &format!("{}\n  history tail:\n    {}", v.detail, tail.join("\n    ")),
                    J::obj()
                        .with("engine", J::s("hist"))
                        .with("property", J::s(&prop_owned))
                        .with("seed", J::Int(seed as i64))
                        .with("case", J::Int(case as i64))
                        .with("len", J::Int(plan.len as i64))
                        .with("history", J::arr_of_str(r.log.iter().cloned())),
                );
            }
        }
    });
    rep.require("successful_structural_mutations", 1000);
    if prop == "C04" {
        c04_container_witness(rep);
    }
    if prop == "C11" {
        c11_two_kinds_witness(rep);
    }
    if matches!(prop, "C03" | "C04" | "C05" | "C06" | "C10" | "C11" | "C13") {
        // bounded exhaustive part: all histories of 3 calls (thorough: 4, evenly spaced beyond the cap) over the small universe
        if tier == "thorough" {
            // all histories of 3 calls, and an evenly spaced sample of the histories of 4 calls
            run_enumerated(prop, rep, 3, usize::MAX);
            run_enumerated(prop, rep, 4, 3_000_000);
        } else {
            run_enumerated(prop, rep, 3, 400_000);
        }
    }
    match prop {
        "C03" => {
            rep.require("monitor.elements_inspected", 100_000);
            rep.require("monitor.stale_handles_probed_or_restricted_sets", 1000);
        }
        "C04" => rep.require("monitor.identifiables_inspected", 50_000),
        "C05" => rep.require("monitor.references_inspected", 20_000),
        "C06" => rep.require("monitor.references_inspected", 300),
        "C10" => {
            rep.require("monitor.stale_handles_probed_or_restricted_sets", 2000);
            rep.require("monitor.references_inspected", 20);
        }
        "C13" | "C14" => rep.require("monitor.references_inspected", 300),
        "C11" => {
            rep.require("failing_calls_checked", 3000);
            rep.require("failing_calls.InvalidFileMerge", 5);
            rep.require("failing_calls.OverlappingDataError", 5);
        }
        _ => {}
    }
}

pub fn replay(prop: &str, path: &str) -> i32 {
    setup_monitors();
    let Ok(text) = std::fs::read_to_string(path) else {
        println!("INCONCLUSIVE property={prop} reason=cannot read replay file {path}");
        return 2;
    };
    let Ok(doc) = crate::json::parse(&text) else {
        println!("INCONCLUSIVE property={prop} reason=cannot parse replay file {path}");
        return 2;
    };
    let r = doc.get("replay").unwrap_or(&doc);
    if r.get("engine").and_then(J::as_str) != Some("hist") {
        // permutation scenarios (C14), sanitizer add-on reports: regenerate from (seed, tier)
        return crate::report::generic_replay(prop, path);
    }
    let seed = r.get("seed").and_then(J::as_i64).unwrap_or(1) as u64;
    let case = r.get("case").and_then(J::as_i64).unwrap_or(0) as u64;
    let len = r.get("len").and_then(J::as_i64).unwrap_or(50) as usize;
    let mut rep = Report::new(prop, "quick", seed);
    let script: Option<Vec<usize>> = r.get("script").and_then(J::as_arr).map(|a| a.iter().filter_map(|x| x.as_i64().map(|v| v as usize)).collect());
    let res = run_case_with(prop, seed, case, len, &mut rep, true, script.as_deref());
    if res.viols.is_empty() {
        println!("replay: no violation reproduced");
        0
    } else {
        for (v, after) in &res.viols {
            println!("replay: {}:{}:{} after={after}\n  {}", prop, v.rule, v.pred, v.detail);
        }
        println!("VIOLATION property={prop} replay={path}");
        1
    }
}

#[allow(dead_code)]
fn unused(_: HashMap<u8, u8>) {}
