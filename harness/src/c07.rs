//! C07 — what the editing API builds conforms to the specification the loader enforces (HIST engine)

use crate::genmodel::*;
use crate::hist::*;
use crate::json::J;
use crate::report::{cpu_count, run_shards, Report};
use crate::rng::{hash_str, Rng};
use crate::specwalk::{SpecWalk, ALL_VERSIONS};
use crate::walk::*;
use autosar_data::*;
use autosar_data_specification::CharacterDataSpec;
use autosar_data_specification::{ContentMode, ElementMultiplicity, ElementType};

pub struct OrderVerdict {
    pub allowed: bool,
    pub valid: Vec<usize>,
}

fn idx_of(ptype: ElementType, name: ElementName, version: AutosarVersion) -> Option<Vec<usize>> {
    ptype.find_sub_element(name, version as u32).map(|(_, i)| i)
}

fn before_ok(ptype: ElementType, a: &[usize], b: &[usize]) -> bool {
    a == b || ptype.find_common_group(a, b).content_mode() != ContentMode::Sequence || a < b
}

/// independent pairwise reference model of "positions that keep the sub elements in specification order".
/// Err(reason): the existing children are not judged (e.g. a child that does not exist in this version)
pub fn order_model(parent: &Element, new: ElementName, version: AutosarVersion) -> Result<OrderVerdict, &'static str> {
    let ptype = parent.element_type();
    let mode = ptype.content_mode();
    if mode == ContentMode::Characters {
        return Ok(OrderVerdict { allowed: false, valid: vec![] });
    }
    let Some(idx_new) = idx_of(ptype, new, version) else {
        return Ok(OrderVerdict { allowed: false, valid: vec![] });
    };
    let content: Vec<ElementContent> = parent.content().collect();
    let len = content.len();
    if mode == ContentMode::Bag || mode == ContentMode::Mixed {
        // any order - except that nothing may be placed in front of the SHORT-NAME of an identifiable element (the
        // element is identified through its first sub element); the only such types are the two ECUC-QUERY-EXPRESSIONs of 4.0.1
        let first_is_short_name = matches!(content.first(), Some(ElementContent::Element(e)) if e.element_name() == ElementName::ShortName && ptype.is_named_in_version(version));
        return Ok(OrderVerdict { allowed: true, valid: (usize::from(first_is_short_name)..=len).collect() });
    }
    let mut kids: Vec<(usize, Vec<usize>)> = Vec::new();
    for (i, c) in content.iter().enumerate() {
        if let ElementContent::Element(e) = c {
            match idx_of(ptype, e.element_name(), version) {
                Some(ix) => kids.push((i, ix)),
                None => return Err("a sub element does not exist in this version"),
            }
        }
    }
    let mut allowed = true;
    for (_, ix) in &kids {
        let g = ptype.find_common_group(&idx_new, ix).content_mode();
        let ok = matches!(g, ContentMode::Bag | ContentMode::Mixed)
            || (*ix == idx_new && ptype.get_sub_element_multiplicity(&idx_new) == Some(ElementMultiplicity::Any))
            || (*ix != idx_new && g != ContentMode::Choice);
        if !ok {
            allowed = false;
        }
    }
    let mut valid = Vec::new();
    for p in 0..=len {
        let ok = kids.iter().all(|(i, ix)| if *i < p { before_ok(ptype, ix, &idx_new) } else { before_ok(ptype, &idx_new, ix) });
        if ok {
            valid.push(p);
        }
    }
    Ok(OrderVerdict { allowed, valid })
}

/// are the existing children pairwise in specification order, without exclusive or single-occurrence conflicts
pub fn children_conform(parent: &Element, version: AutosarVersion) -> Result<(), (&'static str, String)> {
    let ptype = parent.element_type();
    let mode = ptype.content_mode();
    if matches!(mode, ContentMode::Characters | ContentMode::Bag | ContentMode::Mixed) {
        return Ok(());
    }
    let kids: Vec<(ElementName, Option<Vec<usize>>)> = parent.sub_elements().map(|e| (e.element_name(), idx_of(ptype, e.element_name(), version))).collect();
    for (i, (na, a)) in kids.iter().enumerate() {
        let Some(a) = a else { return Err(("not-in-version", format!("{na} is not a sub element of {} in {version:?}", parent.element_name()))) };
        for (nb, b) in kids.iter().skip(i + 1) {
            let Some(b) = b else { continue };
            let g = ptype.find_common_group(a, b).content_mode();
            if a == b {
                let container = ptype.get_sub_element_container_mode(a);
                if matches!(container, ContentMode::Sequence | ContentMode::Choice) && ptype.get_sub_element_multiplicity(a) != Some(ElementMultiplicity::Any) {
                    return Err(("single-occurrence", format!("{na} occurs more than once in {} although it may occur only once", parent.element_name())));
                }
            } else if g == ContentMode::Choice {
                return Err(("exclusive-choice", format!("{na} and {nb} are alternatives of an exclusive choice in {}", parent.element_name())));
            } else if g == ContentMode::Sequence && a > b {
                // the same pair looked up without a version (the position in "any" version, which is what sort() compares)
                let any = |n: ElementName| ptype.find_sub_element(n, u32::MAX).map(|(_, i)| i);
                if let (Some(xa), Some(xb)) = (any(*na), any(*nb)) {
                    if xa < xb {
                        return Err(("order-by-positions-of-other-versions", format!("{na} is listed before {nb} in {}: in {version:?} the specification has them the other way round, a lookup without version has them this way", parent.element_name())));
                    }
                }
                return Err(("order", format!("{na} is listed before {nb} in {}, the specification has them the other way round", parent.element_name())));
            }
        }
    }
    Ok(())
}

/// independent check of one value against its value space (length limits, pattern, enum item valid in the version, kind)
fn value_class(cd: &CharacterData, spec: &CharacterDataSpec, version: AutosarVersion) -> Option<&'static str> {
    match (spec, cd) {
        (CharacterDataSpec::Enum { items }, CharacterData::Enum(item)) => match items.iter().find(|(i, _)| i == item) {
            None => Some("enum-item-not-listed"),
            Some((_, mask)) if mask & version as u32 == 0 => Some("enum-item-not-in-version"),
            _ => None,
        },
        (CharacterDataSpec::Pattern { check_fn, max_length, .. }, CharacterData::String(s)) => {
            if max_length.is_some_and(|m| s.len() > m) {
                Some("too-long")
            } else if !check_fn(s.as_bytes()) {
                Some("pattern-mismatch")
            } else {
                None
            }
        }
        (CharacterDataSpec::String { max_length, .. }, CharacterData::String(s)) => max_length.is_some_and(|m| s.len() > m).then_some("too-long"),
        (CharacterDataSpec::UnsignedInteger, CharacterData::UnsignedInteger(_)) | (CharacterDataSpec::Float, CharacterData::Float(_)) => None,
        _ => Some("wrong-kind"),
    }
}

/// character data and attribute values of one element are inside their value spaces
pub fn values_conform(e: &Element, version: AutosarVersion) -> Result<(), (&'static str, String)> {
    let et = e.element_type();
    if let (Some(spec), Some(cd)) = (et.chardata_spec(), e.character_data()) {
        if e.content_type() == ContentType::CharacterData {
            if let Some(class) = value_class(&cd, spec, version) {
                return Err((class, format!("character data {:?}", crate::monitors::clip(&cd.to_string()))));
            }
        }
    }
    for attr in e.attributes() {
        if let Some(aspec) = et.find_attribute_spec(attr.attrname) {
            if let Some(class) = value_class(&attr.content, aspec.spec, version) {
                return Err((class, format!("attribute {} = {:?}", attr.attrname, crate::monitors::clip(&attr.content.to_string()))));
            }
        }
    }
    Ok(())
}

fn viol(rep: &mut Report, rule: &str, pred: &str, detail: String, log: &[String], case: u64, seed: u64) {
    let tail: Vec<String> = log.iter().rev().take(10).rev().cloned().collect();
    rep.violation(
        rule,
        &format!("C07:{rule}:{pred}"),
        &format!("{detail}\n  history tail:\n    {}", tail.join("\n    ")),
        J::obj().with("engine", J::s("c07")).with("seed", J::Int(seed as i64)).with("case", J::Int(case as i64)).with("history", J::arr_of_str(log.iter().cloned())),
    );
}

/// O1 on one parent for a set of candidate sub element names
fn check_parent(rep: &mut Report, parent: &Element, version: AutosarVersion, rng: &mut Rng, log: &[String], case: u64, seed: u64) {
    let ptype = parent.element_type();
    let pname = parent.element_name();
    if children_conform(parent, version).is_err() {
        // reported by the whole-model conformance check of the call that caused it
        let _ = pname;
        return;
    }
    let mut names: Vec<ElementName> = Vec::new();
    for (n, _, _, _) in ptype.sub_element_spec_iter() {
        if !names.contains(&n) {
            names.push(n);
        }
    }
    rng.shuffle(&mut names);
    names.truncate(10);
    // a name that is no sub element at all
    names.push(crate::c18::ELEMENT_NAME_LISTING[rng.below(crate::c18::ELEMENT_NAME_LISTING.len())].0);
    let listed = parent.list_valid_sub_elements();
    for name in names {
        let Ok(m) = order_model(parent, name, version) else {
            rep.count("o1.parents_with_version_foreign_child(not judged)", 1);
            return;
        };
        rep.evaluations += 1;
        rep.count("o1.range_comparisons", 1);
        let got = parent.calc_element_insert_range(name, version);
        let expect_ok = m.allowed && !m.valid.is_empty();
        match (&got, expect_ok) {
            (Ok((lo, hi)), true) => {
                let range: Vec<usize> = (*lo..=*hi).collect();
                if range != m.valid {
                    viol(rep, "range/differs-from-order-model", &format!("{:?}", ptype.content_mode()), format!("{}.calc_element_insert_range({name}) = ({lo}, {hi}); positions that keep specification order: {:?}", parent.xml_path(), m.valid), log, case, seed);
                }
            }
            (Err(_), false) => {}
            (Ok((lo, hi)), false) => viol(rep, "range/allows-forbidden-element", &format!("{:?}", ptype.content_mode()), format!("{}.calc_element_insert_range({name}) = ({lo}, {hi}) but the element may not be inserted (allowed={}, valid positions {:?})", parent.xml_path(), m.allowed, m.valid), log, case, seed),
            (Err(e), true) => viol(rep, "range/rejects-allowed-element", &crate::hist::err_variant(e), format!("{}.calc_element_insert_range({name}) = Err({e}) but positions {:?} keep specification order", parent.xml_path(), m.valid), log, case, seed),
        }
        // the allowed list agrees
        if let Some(info) = listed.iter().find(|v| v.element_name == name) {
            rep.count("o1.allowed_list_entries", 1);
            if info.is_allowed != expect_ok {
                viol(rep, "allowed-list/disagrees-with-order-model", "", format!("{}: list_valid_sub_elements says is_allowed={} for {name}, order model says {}", parent.xml_path(), info.is_allowed, expect_ok), log, case, seed);
            }
        }
    }
    // create at every position for one candidate
    let cands: Vec<&ValidSubElementInfo> = listed.iter().filter(|v| v.element_name != ElementName::ShortName).collect();
    if let Some(info) = rng.pick_opt(&cands) {
        let name = info.element_name;
        if let Ok(m) = order_model(parent, name, version) {
            let len = parent.content_item_count();
            for p in 0..=len + 1 {
                rep.evaluations += 1;
                rep.count("o1.create_at_probes", 1);
                let r = if info.is_named { parent.create_named_sub_element_at(name, "zz_probe", p) } else { parent.create_sub_element_at(name, p) };
                let expect = m.allowed && m.valid.contains(&p);
                match r {
                    Ok(e) => {
                        if !expect {
                            viol(rep, "create-at/succeeds-outside-valid-positions", "", format!("{}.create_sub_element_at({name}, {p}) succeeds; valid positions {:?}, allowed={}", parent.xml_path(), m.valid, m.allowed), log, case, seed);
                        }
                        if e.position() != Some(p) {
                            viol(rep, "create-at/wrong-position", "", format!("created at {:?} instead of {p}", e.position()), log, case, seed);
                        }
                        let _ = parent.remove_sub_element(e);
                    }
                    Err(err) => {
                        // a named probe may fail because of its name, not its position
                        if expect && !matches!(err, AutosarDataError::DuplicateItemName { .. }) {
                            viol(rep, "create-at/fails-at-valid-position", &crate::hist::err_variant(&err), format!("{}.create_sub_element_at({name}, {p}) = Err({err}); valid positions {:?}", parent.xml_path(), m.valid), log, case, seed);
                        }
                    }
                }
            }
        }
    }
}

/// O2: the serialized file is accepted by the validator without complaints other than missing required attributes, with the same content
fn check_reload(rep: &mut Report, model: &AutosarModel, log: &[String], case: u64, seed: u64) {
    let opts = DumpOpts {
        normalise_text: true,
        skip_root_attrs: true,
        ..Default::default()
    };
    for f in model.files() {
        let Ok(text) = f.serialize() else { continue };
        rep.evaluations += 1;
        rep.count("o2.reloads", 1);
        let fresh = AutosarModel::new();
        match fresh.load_buffer(text.as_bytes(), "reload.arxml", false) {
            Ok((_, warnings)) => {
                for w in &warnings {
                    let v = crate::hist::err_variant(w);
                    if v != "ParserError/RequiredAttributeMissing" {
                        viol(rep, "reload/validator-complains", &v, format!("the file built through the API is not accepted silently: {w}"), log, case, seed);
                        break;
                    }
                }
                let a = dump_tree(&Tree::of_model(model), &opts);
                let b = dump_tree(&Tree::of_model(&fresh), &opts);
                if a != b && model.files().count() == 1 {
                    viol(rep, "reload/content-differs", "", crate::histprops::first_diff(&a, &b), log, case, seed);
                }
            }
            Err(e) => viol(rep, "reload/rejected", &crate::hist::err_variant(&e), format!("the file built through the API does not load: {e}"), log, case, seed),
        }
    }
}

/// directed part: for every enumeration typed element and every item that exists in some but not all versions of the
/// element's path, the element (and its parent) is copied from a model of a version that has the item into a model
/// of a version that lacks it; afterwards every value of the destination model must be inside its value space
fn enum_copy_sweep(rep: &mut Report, walk: &SpecWalk, thorough: bool) {
    let mut jobs: Vec<(ElementType, autosar_data_specification::EnumItem, AutosarVersion, AutosarVersion)> = Vec::new();
    for info in &walk.types {
        let t = info.etype;
        let Some(CharacterDataSpec::Enum { items }) = t.chardata_spec() else { continue };
        if t.content_mode() != ContentMode::Characters {
            continue;
        }
        let pv = path_versions(walk, t);
        let mut per_type = 0;
        for (item, mask) in *items {
            let (with, without) = (pv & mask, pv & !mask);
            if with == 0 || without == 0 {
                continue;
            }
            let hi = |m: u32| ALL_VERSIONS.iter().rev().find(|v| m & **v as u32 != 0).copied();
            if let (Some(va), Some(vb)) = (hi(with), hi(without)) {
                jobs.push((t, *item, va, vb));
                per_type += 1;
                if !thorough && per_type >= 2 {
                    break;
                }
            }
        }
    }
    rep.count("enum_copy.jobs", jobs.len() as u64);
    let jobs_ref = &jobs;
    let shards = 32;
    run_shards(rep, shards, cpu_count(), 64, |shard, sub| {
        for (j, (t, item, va, vb)) in jobs_ref.iter().enumerate() {
            if j % shards != shard {
                continue;
            }
            for whole_parent in [false, true] {
                let (m1, _f1) = model_for_version(*va);
                let (m2, _f2) = model_for_version(*vb);
                let (mut k1, mut k2) = (0, 500);
                let (Ok(e1), Ok(e2)) = (build_to(&m1, walk, *t, &mut k1), build_to(&m2, walk, *t, &mut k2)) else {
                    sub.count("enum_copy.not_reachable_through_the_api", 1);
                    continue;
                };
                if e1.set_character_data(*item).is_err() {
                    sub.count("enum_copy.source_value_rejected", 1);
                    continue;
                }
                let (src, victim) = if whole_parent {
                    match (e1.parent(), e2.parent()) {
                        (Ok(Some(p1)), Ok(Some(p2))) if p2.parent().ok().flatten().is_some() => (p1, p2),
                        _ => continue,
                    }
                } else {
                    (e1.clone(), e2.clone())
                };
                let Ok(Some(dest)) = victim.parent() else { continue };
                if dest.remove_sub_element(victim).is_err() {
                    continue;
                }
                let r = crate::panicmon::catch(|| dest.create_copied_sub_element(&src));
                sub.evaluations += 1;
                sub.count(if whole_parent { "enum_copy.parent_copies" } else { "enum_copy.element_copies" }, 1);
                match &r {
                    Ok(Ok(_)) => sub.count("enum_copy.copy_ok", 1),
                    Ok(Err(_)) => sub.count("enum_copy.copy_err", 1),
                    Err(_) => {
                        sub.count("histories_cut_short_by_panic_or_hang(belongs to C12)", 1);
                        continue;
                    }
                }
                let log = vec![format!("{} {item} built in {va:?}; {} copied into a model of {vb:?} -> {}", e1.xml_path(), src.element_name(), match &r { Ok(Ok(_)) => "Ok".to_string(), Ok(Err(e)) => crate::hist::err_variant(e), Err(_) => "panic".into() })];
                for (_, e) in m2.elements_dfs() {
                    if let Err((class, why)) = values_conform(&e, *vb) {
                        viol(sub, "built/value-outside-value-space", &format!("{class}:after=Copy"), format!("in {}: {why}", e.xml_path()), &log, j as u64, 0);
                        break;
                    }
                }
                sub.eval(Some(hash_str(&log[0])));
            }
        }
    });
    rep.require("enum_copy.element_copies", 40);
    rep.require("enum_copy.parent_copies", 40);
}

/// directed calls against the SHORT-NAME of identifiable elements (run on the cases with unusual naming rules): it must
/// stay the first sub element of its element whatever is moved, inserted or created around it
fn short_name_attack(sub: &mut Report, model: &AutosarModel, version: AutosarVersion, log: &mut Vec<String>, case: u64, seed: u64) {
    let all: Vec<Element> = model.elements_dfs().map(|(_, e)| e).collect();
    let names: Vec<Element> = all.iter().filter(|e| e.element_name() == ElementName::ShortName).cloned().collect();
    let mixed: Vec<Element> = all.iter().filter(|e| matches!(e.element_type().content_mode(), ContentMode::Mixed | ContentMode::Bag)).cloned().collect();
    let check = |sub: &mut Report, what: &str, log: &Vec<String>| -> bool {
        for (_, e) in model.elements_dfs() {
            if e.element_type().is_named_in_version(version) && e.element_name() != ElementName::Autosar && e.get_sub_element_at(0).is_none_or(|c| c.element_name() != ElementName::ShortName) {
                viol(sub, "built/identifiable-without-short-name", &format!("same-version:after={what}"), format!("{} has no SHORT-NAME as its first sub element although its type is identifiable in {version:?}", e.xml_path()), log, case, seed);
                return false;
            }
        }
        true
    };
    for sn in &names {
        let Ok(Some(owner)) = sn.parent() else { continue };
        for pos in [1usize, 2] {
            let r = crate::panicmon::catch(|| owner.move_element_here_at(sn, pos));
            sub.count("short_name_attack.calls", 1);
            log.push(format!("attack: {}.move_element_here_at(its SHORT-NAME, {pos}) -> {}", owner.element_name(), match &r { Ok(Ok(_)) => "Ok".to_string(), Ok(Err(e)) => crate::hist::err_variant(e), Err(_) => "abnormal".into() }));
            if !check(sub, "MoveAt", log) {
                return;
            }
        }
        for d in &mixed {
            if *d == owner {
                continue;
            }
            for at in [None, Some(0usize), Some(1)] {
                let r = crate::panicmon::catch(|| match at { Some(p) => d.move_element_here_at(sn, p), None => d.move_element_here(sn) });
                sub.count("short_name_attack.calls", 1);
                log.push(format!("attack: {}.move_element_here{}(SHORT-NAME of {}) -> {}", d.element_name(), at.map_or(String::new(), |p| format!("_at[{p}]")), owner.element_name(), match &r { Ok(Ok(_)) => "Ok".to_string(), Ok(Err(e)) => crate::hist::err_variant(e), Err(_) => "abnormal".into() }));
                if !check(sub, if at.is_some() { "MoveAt" } else { "Move" }, log) {
                    return;
                }
            }
        }
    }
    for d in &mixed {
        if !d.element_type().is_named_in_version(version) {
            continue;
        }
        let r = crate::panicmon::catch(|| d.insert_character_content_item("t", 0));
        sub.count("short_name_attack.calls", 1);
        log.push(format!("attack: {}.insert_character_content_item(\"t\", 0) -> {}", d.element_name(), match &r { Ok(Ok(_)) => "Ok".to_string(), Ok(Err(e)) => crate::hist::err_variant(e), Err(_) => "abnormal".into() }));
        if !check(sub, "InsertText", log) {
            return;
        }
        for info in d.list_valid_sub_elements() {
            if info.is_named {
                continue;
            }
            let r = crate::panicmon::catch(|| d.create_sub_element_at(info.element_name, 0));
            sub.count("short_name_attack.calls", 1);
            log.push(format!("attack: {}.create_sub_element_at({}, 0) -> {}", d.element_name(), info.element_name, match &r { Ok(Ok(_)) => "Ok".to_string(), Ok(Err(e)) => crate::hist::err_variant(e), Err(_) => "abnormal".into() }));
            if !check(sub, "CreateSubAt", log) {
                return;
            }
        }
    }
}

/// directed part: "exactly the sub elements reported as currently allowed can be created", one level deep for every element type:
/// an element of the type is built, one of its possible sub elements is created, then every entry of
/// list_valid_sub_elements() is tried (created and removed again) and is_allowed must equal the outcome
fn allowed_sweep(rep: &mut Report, walk: &SpecWalk, thorough: bool) {
    let n_types = walk.types.len();
    let shards = 64;
    let seed = rep.seed;
    run_shards(rep, shards, cpu_count(), 64, |shard, sub| {
        for ti in (shard..n_types).step_by(shards) {
            let t = walk.types[ti].etype;
            if matches!(t.content_mode(), ContentMode::Characters) {
                continue;
            }
            let mask = path_versions(walk, t);
            let mut versions: Vec<AutosarVersion> = ALL_VERSIONS.iter().copied().filter(|v| mask & *v as u32 != 0).collect();
            if versions.is_empty() {
                continue;
            }
            if !thorough {
                // the newest and (alternating with the seed) one other version
                let other = versions[(ti + seed as usize) % versions.len()];
                versions = vec![*versions.last().unwrap(), other];
                versions.dedup();
            }
            for version in versions {
                let (model, _f) = model_for_version(version);
                let mut k = 0;
                let Ok(e) = build_to(&model, walk, t, &mut k) else { continue };
                sub.count("allowed_sweep.elements", 1);
                let first_names: Vec<(ElementName, bool)> = e.list_valid_sub_elements().iter().filter(|i| i.is_allowed).map(|i| (i.element_name, i.is_named)).collect();
                let limit = if thorough { 24 } else { 8 };
                let start = (ti + seed as usize) % first_names.len().max(1);
                for step in 0..first_names.len().min(limit) {
                    let (n1, named1) = first_names[(start + step) % first_names.len()];
                    let c1 = if named1 { e.create_named_sub_element(n1, "first") } else { e.create_sub_element(n1) };
                    let Ok(c1) = c1 else { continue };
                    for info in e.list_valid_sub_elements() {
                        let r = crate::panicmon::catch(|| if info.is_named { e.create_named_sub_element(info.element_name, "second") } else { e.create_sub_element(info.element_name) });
                        sub.evaluations += 1;
                        sub.count("allowed_sweep.create_attempts", 1);
                        match r {
                            Ok(Ok(c2)) => {
                                if !info.is_allowed {
                                    let log = vec![format!("{} in {version:?}: after creating {n1}, list_valid_sub_elements() says is_allowed=false for {}", e.xml_path(), info.element_name)];
                                    viol(sub, "allowed-list/not-allowed-but-creatable", "", format!("{}: {} is reported as not allowed but create succeeds", e.xml_path(), info.element_name), &log, ti as u64, seed);
                                }
                                let _ = e.remove_sub_element(c2);
                            }
                            Ok(Err(err)) => {
                                if info.is_allowed {
                                    let log = vec![format!("{} in {version:?}: after creating {n1}, list_valid_sub_elements() says is_allowed=true for {}", e.xml_path(), info.element_name)];
                                    viol(sub, "allowed-list/allowed-but-not-creatable", &crate::hist::err_variant(&err), format!("{}: {} is reported as allowed but create fails: {err}", e.xml_path(), info.element_name), &log, ti as u64, seed);
                                }
                            }
                            Err(_) => sub.count("histories_cut_short_by_panic_or_hang(belongs to C12)", 1),
                        }
                    }
                    if e.remove_sub_element(c1).is_err() {
                        break;
                    }
                }
            }
        }
    });
    rep.require("allowed_sweep.create_attempts", 200_000);
}

pub fn run(rep: &mut Report, tier: &str) {
    crate::histprops::setup_monitors();
    let thorough = tier == "thorough";
    let seed = rep.seed;
    let walk = SpecWalk::new();
    rep.rule = "for element types taken round-robin from all types of the specification and versions in which they exist: a model is built through the API along the shortest path to the type, then 25 random editing calls (create / create-at / named / copy / move / remove / set data / set attribute, values inside and outside the value space) run on it; after every call the insertion range, the allowed list and create-at at every position are compared with an independent pairwise order model on the touched parents, and the children of every touched parent must conform (order, exclusive choice, single occurrence); at the end the file is serialized and validated by the lenient loader. Distinct by (type, version, call log); non-trivial = at least one successful structural mutation".into();
    rep.assumptions.push("the order model uses find_sub_element / find_common_group / multiplicity of the specification crate (subject of C18) as its tables".into());
    let n_types = walk.types.len();
    let cases = if thorough { n_types * 16 } else { n_types * 2 };
    let special: Vec<usize> = walk
        .types
        .iter()
        .enumerate()
        .filter(|(_, info)| {
            let t = info.etype;
            let pv = path_versions(&walk, t);
            t.is_named() && (matches!(t.content_mode(), ContentMode::Mixed | ContentMode::Bag) || ALL_VERSIONS.iter().any(|v| pv & *v as u32 != 0 && !t.is_named_in_version(*v)))
        })
        .map(|(i, _)| i)
        .collect();
    rep.count("types_with_unusual_naming_rules", special.len() as u64);
    let special_cases = if thorough { special.len() * 200 } else { special.len() * 40 };
    let special_ref = &special;
    let shards = 64;
    let per = cases.div_ceil(shards);
    let walk_ref = &walk;
    run_shards(rep, shards, cpu_count(), 64, |shard, sub| {
        for j in 0..per {
            let case = (shard * per + j) as u64;
            if case as usize >= cases {
                break;
            }
            crate::lockmon::activate(true);
            let mut rng = Rng::derive(seed, "c07", case);
            // stride through all types so that quick runs sample them evenly
            // the first cases go to the few types with unusual naming rules (identifiable with mixed / bag content, identifiable
            // in some versions only), which a round robin over 9 000 types visits too rarely
            let ti = if (case as usize) < special_cases && !special_ref.is_empty() {
                special_ref[case as usize % special_ref.len()]
            } else if thorough {
                case as usize % n_types
            } else {
                (case as usize * 7919 + seed as usize * 131) % n_types
            };
            let t = walk_ref.types[ti].etype;
            let mask = path_versions(walk_ref, t);
            let versions: Vec<AutosarVersion> = ALL_VERSIONS.iter().copied().filter(|v| mask & *v as u32 != 0).collect();
            let Some(version) = rng.pick_opt(&versions).copied() else {
                sub.count("types_without_a_common_version_on_their_path", 1);
                continue;
            };
            let (model, _file) = model_for_version(version);
            let mut k = 0;
            if build_to(&model, walk_ref, t, &mut k).is_err() {
                sub.count("types_not_reachable_through_the_api", 1);
                continue;
            }
            sub.count("types_built", 1);
            sub.name_in("versions", version.filename());
            let mut w = World::new(Rng::derive(seed, "c07w", case));
            w.masks.no_cyclic_names = false;
            w.add_model(model.clone());
            // a second model of another version: copies between versions must only carry over what is permitted there
            let mut second: Option<(AutosarModel, AutosarVersion)> = None;
            if versions.len() > 1 && rng.chance(1, 2) {
                let v2 = *rng.pick(&versions);
                if v2 != version {
                    let (m2, _f2) = model_for_version(v2);
                    let mut k2 = 1000;
                    if build_to(&m2, walk_ref, t, &mut k2).is_ok() {
                        w.add_model(m2.clone());
                        second = Some((m2, v2));
                        sub.count("cases_with_a_second_version", 1);
                    }
                }
            }
            w.refresh();
            let prof = Profile {
                weights: vec![
                    (Kind::CreateSub, 30),
                    (Kind::CreateSubAt, 25),
                    (Kind::CreateNamed, 20),
                    (Kind::CreateNamedAt, 15),
                    (Kind::GetOrCreate, 6),
                    (Kind::Copy, 10),
                    (Kind::CopyAt, 8),
                    (Kind::Move, 8),
                    (Kind::MoveAt, 8),
                    (Kind::Remove, 8),
                    (Kind::SetData, 20),
                    (Kind::SetAttr, 10),
                    (Kind::SetAttrStr, 6),
                    (Kind::RemoveAttr, 3),
                    (Kind::InsertText, 4),
                    (Kind::Sort, 3),
                ],
                stale_pct: 3,
                hostile_pct: 20,
                primary_pct: if second.is_some() { 60 } else { 100 },
            };
            let mut mutations = 0;
            let mut aborted = false;
            let mut conforming = true;
            for step in 0..25 {
                let gen = crate::panicmon::catch(|| w.gen_op(&prof));
                let Ok(op) = gen else {
                    aborted = true;
                    break;
                };
                let text = w.describe(&op);
                let src_home = match &op {
                    Op::Copy { src, .. } | Op::CopyAt { src, .. } | Op::Move { src, .. } | Op::MoveAt { src, .. } => w.home(&w.elems[*src]),
                    _ => None,
                };
                let move_kind = match &op {
                    Op::Move { p, src } | Op::MoveAt { p, src, .. } => match w.elems[*src].parent() {
                        Ok(Some(sp)) if sp == w.elems[*p] => ":within-one-parent",
                        _ => ":from-another-parent",
                    },
                    _ => "",
                };
                let out = w.exec(&op);
                w.refresh();
                w.log.push(format!("{step:3} {text} -> {}", out.short()));
                if let Outcome::Abnormal(_) = out {
                    sub.count("histories_cut_short_by_panic_or_hang(belongs to C12)", 1);
                    aborted = true;
                    break;
                }
                if out.is_ok() {
                    mutations += 1;
                }
                // every element of the model conforms after every successful call (attributed to the call that broke it)
                if out.is_ok() && conforming {
                    for (mi, n) in w.trees.iter().enumerate().flat_map(|(mi, t)| t.nodes.iter().map(move |n| (mi, n))) {
                        let version = if mi == 0 { version } else { second.as_ref().map_or(version, |s| s.1) };
                        // an element whose type is identifiable in this version has its SHORT-NAME
                        let et = n.elem.element_type();
                        if et.is_named_in_version(version) && n.elem.get_sub_element_at(0).is_none_or(|c| c.element_name() != ElementName::ShortName) && n.elem.element_name() != ElementName::Autosar {
                            conforming = false;
                            let cross = match &op {
                                Op::Copy { p, src } | Op::CopyAt { p, src, .. } | Op::Move { p, src } | Op::MoveAt { p, src, .. } => src_home.is_some() && src_home != w.home(&w.elems[*p]) && { let _ = src; true },
                                _ => false,
                            };
                            let log = w.log.clone();
                            viol(sub, "built/identifiable-without-short-name", &format!("{}:after={:?}", if cross { "copied-from-another-version" } else { "same-version" }, op.kind()), format!("{} has no SHORT-NAME although its type is identifiable in {version:?}", n.elem.xml_path()), &log, case, seed);
                            break;
                        }
                        if let Err((class, why)) = values_conform(&n.elem, version) {
                            conforming = false;
                            let log = w.log.clone();
                            viol(sub, "built/value-outside-value-space", &format!("{class}:after={:?}", op.kind()), format!("in {}: {why}", n.elem.xml_path()), &log, case, seed);
                            break;
                        }
                        if let Err((class, why)) = children_conform(&n.elem, version) {
                            if class == "not-in-version" {
                                continue;
                            }
                            conforming = false;
                            let log = w.log.clone();
                            viol(sub, "built/children-do-not-conform", &format!("{class}{move_kind}:after={:?}", op.kind()), format!("in {}: {why}", n.elem.xml_path()), &log, case, seed);
                            break;
                        }
                    }
                    sub.count("conformance.elements_checked", w.trees[0].nodes.len() as u64);
                }
                // parents touched by the call
                let mut parents: Vec<Element> = Vec::new();
                if let Some(r) = op.receiver() {
                    parents.push(w.elems[r].clone());
                }
                if let Some(e) = &w.last_created {
                    parents.push(e.clone());
                    if let Ok(Some(p)) = e.parent() {
                        parents.push(p);
                    }
                }
                for p in parents {
                    if let Some(mi) = w.home(&p) {
                        let log = w.log.clone();
                        let version = if mi == 0 { version } else { second.as_ref().map_or(version, |s| s.1) };
                        check_parent(sub, &p, version, &mut rng, &log, case, seed);
                    }
                }
            }
            if !aborted && conforming && (case as usize) < special_cases {
                let mut log = w.log.clone();
                short_name_attack(sub, &model, version, &mut log, case, seed);
            }
            if !aborted && conforming {
                let log = w.log.clone();
                check_reload(sub, &model, &log, case, seed);
                if let Some((m2, _)) = &second {
                    check_reload(sub, m2, &log, case, seed);
                }
            }
            let h = hash_str(&w.log.join("\n")) ^ (ti as u64) << 20;
            sub.eval(if mutations > 0 { Some(h) } else { None });
            sub.distinct_in("element_types_targeted", ti as u64);
            if case < 2 {
                sub.sample(J::obj().with("type_index", J::Int(ti as i64)).with("version", J::s(version.filename())).with("calls", J::arr_of_str(w.log.iter().take(12).cloned())));
            }
            crate::lockmon::activate(false);
        }
    });
    enum_copy_sweep(rep, &walk, thorough);
    allowed_sweep(rep, &walk, thorough);
    rep.require("short_name_attack.calls", 2_000);
    rep.require("types_built", (cases / 2) as u64);
    rep.require("o1.range_comparisons", 50_000);
    rep.require("o1.create_at_probes", 10_000);
    rep.require("o2.reloads", (cases / 3) as u64);
}
