//! SplitMix64 based deterministic random numbers

#[derive(Clone, Debug)]
pub struct Rng(pub u64);

pub fn mix(mut z: u64) -> u64 {
    z = z.wrapping_add(0x9E37_79B9_7F4A_7C15);
    z = (z ^ (z >> 30)).wrapping_mul(0xBF58_476D_1CE4_E5B9);
    z = (z ^ (z >> 27)).wrapping_mul(0x94D0_49BB_1331_11EB);
    z ^ (z >> 31)
}

pub fn hash_str(s: &str) -> u64 {
    hash_bytes(s.as_bytes())
}

pub fn hash_bytes(b: &[u8]) -> u64 {
    // FNV-1a followed by a mix
    let mut h: u64 = 0xcbf2_9ce4_8422_2325;
    for c in b {
        h ^= u64::from(*c);
        h = h.wrapping_mul(0x0000_0100_0000_01B3);
    }
    mix(h)
}

impl Rng {
    pub fn new(seed: u64) -> Self {
        Rng(mix(seed ^ 0x5851_F42D_4C95_7F2D))
    }
    /// derive an independent stream
    pub fn derive(seed: u64, label: &str, index: u64) -> Self {
        Rng(mix(mix(seed) ^ hash_str(label) ^ mix(index.wrapping_mul(0x2545_F491_4F6C_DD1D))))
    }
    pub fn next(&mut self) -> u64 {
        self.0 = self.0.wrapping_add(0x9E37_79B9_7F4A_7C15);
        let mut z = self.0;
        z = (z ^ (z >> 30)).wrapping_mul(0xBF58_476D_1CE4_E5B9);
        z = (z ^ (z >> 27)).wrapping_mul(0x94D0_49BB_1331_11EB);
        z ^ (z >> 31)
    }
    pub fn below(&mut self, n: usize) -> usize {
        if n == 0 {
            0
        } else {
            (self.next() % n as u64) as usize
        }
    }
    pub fn range(&mut self, lo: usize, hi_incl: usize) -> usize {
        lo + self.below(hi_incl - lo + 1)
    }
    pub fn chance(&mut self, num: u32, den: u32) -> bool {
        (self.next() % u64::from(den)) < u64::from(num)
    }
    pub fn pick<'a, T>(&mut self, items: &'a [T]) -> &'a T {
        &items[self.below(items.len())]
    }
    pub fn pick_opt<'a, T>(&mut self, items: &'a [T]) -> Option<&'a T> {
        if items.is_empty() {
            None
        } else {
            Some(&items[self.below(items.len())])
        }
    }
    pub fn shuffle<T>(&mut self, items: &mut [T]) {
        for i in (1..items.len()).rev() {
            let j = self.below(i + 1);
            items.swap(i, j);
        }
    }
    /// weighted choice: returns index
    pub fn weighted(&mut self, weights: &[u32]) -> usize {
        let total: u64 = weights.iter().map(|w| u64::from(*w)).sum();
        if total == 0 {
            return 0;
        }
        let mut x = self.next() % total;
        for (i, w) in weights.iter().enumerate() {
            if x < u64::from(*w) {
                return i;
            }
            x -= u64::from(*w);
        }
        weights.len() - 1
    }
}
