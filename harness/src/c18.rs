//! C18 — specification tables are exact (TABLE engine)

use crate::json::J;
use crate::report::Report;
use crate::rng::{hash_str, Rng};
use crate::specwalk::{SpecWalk, ALL_VERSIONS, ALL_VERSION_MASK};
use autosar_data_specification::*;
use std::collections::{HashMap, HashSet};
use std::str::FromStr;

include!(concat!(env!("OUT_DIR"), "/listings.rs"));

trait NameEnum: Copy + Eq + std::fmt::Debug {
    const KIND: &'static str;
    fn to_text(&self) -> &'static str;
    fn parse_bytes(b: &[u8]) -> Option<Self>;
    fn parse_str(s: &str) -> Option<Self>;
    fn discr(&self) -> u32;
}
impl NameEnum for ElementName {
    const KIND: &'static str = "ElementName";
    fn to_text(&self) -> &'static str {
        self.to_str()
    }
    fn parse_bytes(b: &[u8]) -> Option<Self> {
        Self::from_bytes(b).ok()
    }
    fn parse_str(s: &str) -> Option<Self> {
        Self::from_str(s).ok()
    }
    fn discr(&self) -> u32 {
        *self as u32
    }
}
impl NameEnum for AttributeName {
    const KIND: &'static str = "AttributeName";
    fn to_text(&self) -> &'static str {
        self.to_str()
    }
    fn parse_bytes(b: &[u8]) -> Option<Self> {
        Self::from_bytes(b).ok()
    }
    fn parse_str(s: &str) -> Option<Self> {
        Self::from_str(s).ok()
    }
    fn discr(&self) -> u32 {
        *self as u32
    }
}
impl NameEnum for EnumItem {
    const KIND: &'static str = "EnumItem";
    fn to_text(&self) -> &'static str {
        self.to_str()
    }
    fn parse_bytes(b: &[u8]) -> Option<Self> {
        Self::from_bytes(b).ok()
    }
    fn parse_str(s: &str) -> Option<Self> {
        Self::from_str(s).ok()
    }
    fn discr(&self) -> u32 {
        *self as u32
    }
}

fn viol(rep: &mut Report, rule: &str, kind: &str, detail: String) {
    let sig = format!("C18:{rule}:{kind}");
    rep.violation(
        rule,
        &sig,
        &detail,
        J::obj().with("engine", J::s("table")).with("check", J::s(rule)).with("detail", J::s(detail.clone())),
    );
}

/// all one-edit neighbours of a member text
fn neighbours(text: &str, out: &mut Vec<Vec<u8>>) {
    let b = text.as_bytes();
    for i in 0..b.len() {
        // case flip
        let c = b[i];
        if c.is_ascii_alphabetic() {
            let mut v = b.to_vec();
            v[i] = if c.is_ascii_uppercase() { c.to_ascii_lowercase() } else { c.to_ascii_uppercase() };
            out.push(v);
        }
        // separator swap
        if c == b'-' || c == b'_' {
            let mut v = b.to_vec();
            v[i] = if c == b'-' { b'_' } else { b'-' };
            out.push(v);
        }
        // drop
        let mut v = b.to_vec();
        v.remove(i);
        out.push(v);
        // duplicate
        let mut v = b.to_vec();
        v.insert(i, c);
        out.push(v);
        // substitute by neighbour byte
        let mut v = b.to_vec();
        v[i] = c.wrapping_add(1);
        out.push(v);
    }
    for extra in [b' ', b'-', b'S', b'\0', b'\n', 0xC3] {
        let mut v = b.to_vec();
        v.push(extra);
        out.push(v);
        let mut v = vec![extra];
        v.extend_from_slice(b);
        out.push(v);
    }
}

fn check_names<T: NameEnum>(rep: &mut Report, listing: &[(T, &str, u32)], rng: &mut Rng, tier: &str, miri: bool) {
    let kind = T::KIND;
    let members: HashSet<&[u8]> = listing.iter().map(|(_, t, _)| t.as_bytes()).collect();
    if members.len() != listing.len() {
        viol(rep, "names/texts-not-distinct", kind, format!("{} items but {} distinct texts", listing.len(), members.len()));
    }
    // dense discriminants
    let mut seen_discr = vec![false; listing.len()];
    for (item, text, n) in listing {
        rep.eval(Some(hash_str(&format!("{kind}:{text}"))));
        rep.count(&format!("{kind}.members"), 1);
        if item.discr() != *n {
            viol(rep, "names/discriminant", kind, format!("{text}: discriminant {} but source says {n}", item.discr()));
        }
        if (*n as usize) < seen_discr.len() {
            if seen_discr[*n as usize] {
                viol(rep, "names/discriminant-duplicate", kind, format!("{text}: discriminant {n} used twice"));
            }
            seen_discr[*n as usize] = true;
        } else {
            viol(rep, "names/discriminant-not-dense", kind, format!("{text}: discriminant {n} >= {}", listing.len()));
        }
        if item.to_text() != *text {
            viol(rep, "names/to_str", kind, format!("to_str({item:?}) = {:?}, source text {text:?}", item.to_text()));
        }
        match T::parse_bytes(text.as_bytes()) {
            Some(back) if back == *item => {}
            other => viol(rep, "names/from_bytes", kind, format!("from_bytes({text:?}) = {other:?}, expected {item:?}")),
        }
        match T::parse_str(text) {
            Some(back) if back == *item => {}
            other => viol(rep, "names/from_str", kind, format!("from_str({text:?}) = {other:?}, expected {item:?}")),
        }
        match T::parse_str(item.to_text()) {
            Some(back) if back == *item => {}
            other => viol(rep, "names/roundtrip", kind, format!("from_str(to_str({item:?})) = {other:?}")),
        }
    }
    // non members
    let mut tried = 0u64;
    let mut reject = |rep: &mut Report, cand: &[u8], class: &str| {
        if members.contains(cand) {
            return;
        }
        tried += 1;
        if let Some(hit) = T::parse_bytes(cand) {
            viol(
                rep,
                "names/non-member-accepted",
                kind,
                format!("from_bytes({:?}) [{class}] = {hit:?} although it is not the text of any item", crate::json::show_bytes(cand, 80)),
            );
        }
        if let Ok(s) = std::str::from_utf8(cand) {
            if let Some(hit) = T::parse_str(s) {
                viol(rep, "names/non-member-accepted", kind, format!("from_str({s:?}) [{class}] = {hit:?}"));
            }
        }
    };
    let stride = if miri { 97 } else { 1 };
    let mut buf = Vec::new();
    for (i, (_, text, _)) in listing.iter().enumerate() {
        if i % stride != 0 {
            continue;
        }
        buf.clear();
        neighbours(text, &mut buf);
        for cand in &buf {
            reject(rep, cand, "one-edit neighbour");
        }
    }
    reject(rep, b"", "empty");
    reject(rep, &[0xff, 0xfe, 0xfd], "non-utf8");
    reject(rep, &[0xc3, 0x28], "non-utf8");
    if !miri {
        let big = vec![b'A'; 1 << 20];
        reject(rep, &big, "1MB");
        let mut big2 = listing[0].1.as_bytes().to_vec();
        big2.resize(1 << 20, b'-');
        reject(rep, &big2, "1MB with member prefix");
    }
    let n_random = if miri {
        300
    } else if tier == "thorough" {
        1_000_000
    } else {
        100_000
    };
    let alphabet = b"ABCDEFGHIJKLMNOPQRSTUVWXYZ-0123456789abcdefghijklmnopqrstuvwxyz_: ";
    for _ in 0..n_random {
        let len = match rng.below(10) {
            0 => rng.below(3),
            1..=6 => rng.range(3, 24),
            7 | 8 => rng.range(25, 70),
            _ => rng.range(71, 300),
        };
        let raw = rng.chance(1, 10);
        let cand: Vec<u8> = (0..len)
            .map(|_| if raw { (rng.next() & 0xff) as u8 } else { alphabet[rng.below(alphabet.len())] })
            .collect();
        reject(rep, &cand, "random");
    }
    // splice of two members / truncations
    for _ in 0..(n_random / 10) {
        let a = listing[rng.below(listing.len())].1.as_bytes();
        let b = listing[rng.below(listing.len())].1.as_bytes();
        let mut cand = a[..rng.below(a.len() + 1)].to_vec();
        cand.extend_from_slice(&b[rng.below(b.len() + 1)..]);
        reject(rep, &cand, "splice");
    }
    rep.count(&format!("{kind}.non_members_rejected"), tried);
    rep.count("non_members_tried", tried);
}

pub fn run(rep: &mut Report, tier: &str, miri: bool) {
    let mut rng = Rng::derive(rep.seed, "c18", 0);
    rep.rule = "exhaustive sweep of the listings parsed from the generated source text (3 name enums, versions) and of every (element type, listed sub-element/attribute, version bit) and (reference type, named type) pair; non-members = all one-edit neighbours of every member + random/spliced/non-UTF-8/1MB strings; a case is distinct by (kind, key) and non-trivial if it exercises a lookup".into();
    rep.assumptions.push("listings are parsed by build.rs from the doc line + `Ident = n` of the generated enum sources; sub_element_spec_iter/attribute_spec_iter are taken as the listing the lookups are compared with".into());

    check_names(rep, ELEMENT_NAME_LISTING, &mut rng, tier, miri);
    check_names(rep, ATTRIBUTE_NAME_LISTING, &mut rng, tier, miri);
    check_names(rep, ENUM_ITEM_LISTING, &mut rng, tier, miri);
    rep.extra.insert(
        "listing_sizes".into(),
        J::obj()
            .with("ElementName", J::Int(ELEMENT_NAME_LISTING.len() as i64))
            .with("AttributeName", J::Int(ATTRIBUTE_NAME_LISTING.len() as i64))
            .with("EnumItem", J::Int(ENUM_ITEM_LISTING.len() as i64))
            .with("AutosarVersion", J::Int(VERSION_LISTING.len() as i64)),
    );
    rep.sample(J::obj().with("kind", J::s("member")).with("text", J::s(ELEMENT_NAME_LISTING[17].1)).with("discriminant", J::Int(i64::from(ELEMENT_NAME_LISTING[17].2))));
    rep.sample(J::obj().with("kind", J::s("non-member (case flip)")).with("text", J::s(ELEMENT_NAME_LISTING[17].1.to_lowercase())));

    // ---- versions
    if VERSION_LISTING.len() != 21 || ALL_VERSIONS.len() != 21 {
        viol(rep, "versions/count", "AutosarVersion", format!("{} versions listed in the source, expected 21", VERSION_LISTING.len()));
    }
    let mut bits = 0u32;
    for (v, xsd, val) in VERSION_LISTING {
        rep.eval(Some(hash_str(&format!("version:{xsd}"))));
        rep.count("versions", 1);
        if *v as u32 != *val || val.count_ones() != 1 {
            viol(rep, "versions/bit", "AutosarVersion", format!("{v:?} = {:#x}, source {val:#x}", *v as u32));
        }
        if bits & val != 0 {
            viol(rep, "versions/bit-duplicate", "AutosarVersion", format!("{v:?}"));
        }
        bits |= val;
        if v.filename() != *xsd {
            viol(rep, "versions/filename", "AutosarVersion", format!("{v:?}.filename() = {:?}, documented {xsd:?}", v.filename()));
        }
        match AutosarVersion::from_str(v.filename()) {
            Ok(back) if back == *v => {}
            other => viol(rep, "versions/from_str", "AutosarVersion", format!("from_str({:?}) = {:?}", v.filename(), other.ok())),
        }
        if AutosarVersion::from_val(*v as u32) != Some(*v) {
            viol(rep, "versions/from_val", "AutosarVersion", format!("from_val({:#x}) = {:?}", *v as u32, AutosarVersion::from_val(*v as u32)));
        }
        if !v.compatible(*v as u32) || v.compatible(!(*v as u32)) {
            viol(rep, "versions/compatible", "AutosarVersion", format!("{v:?}.compatible"));
        }
        // neighbours of the file name
        let mut buf = Vec::new();
        neighbours(xsd, &mut buf);
        let all: HashSet<&str> = VERSION_LISTING.iter().map(|(_, x, _)| *x).collect();
        for cand in buf {
            if let Ok(s) = std::str::from_utf8(&cand) {
                if !all.contains(s) {
                    rep.count("non_members_tried", 1);
                    if let Ok(hit) = AutosarVersion::from_str(s) {
                        viol(rep, "versions/non-member-accepted", "AutosarVersion", format!("from_str({s:?}) = {hit:?}"));
                    }
                }
            }
        }
    }
    if bits != ALL_VERSION_MASK {
        viol(rep, "versions/mask", "AutosarVersion", format!("union of version bits = {bits:#x}"));
    }
    // from_val on non-single-bit patterns
    let limit: u32 = if miri { 1 << 10 } else { 1 << 22 };
    let mut nonmember_vals = 0u64;
    for n in 0..limit {
        let expect = n.count_ones() == 1 && (n & ALL_VERSION_MASK) != 0;
        let got = AutosarVersion::from_val(n);
        nonmember_vals += 1;
        if got.is_some() != expect || got.is_some_and(|v| v as u32 != n) {
            viol(rep, "versions/from_val-range", "AutosarVersion", format!("from_val({n:#x}) = {got:?}"));
        }
    }
    for _ in 0..(if miri { 100 } else { 200_000 }) {
        let n = rng.next() as u32;
        let expect = n.count_ones() == 1 && (n & ALL_VERSION_MASK) != 0;
        let got = AutosarVersion::from_val(n);
        nonmember_vals += 1;
        if got.is_some() != expect {
            viol(rep, "versions/from_val-range", "AutosarVersion", format!("from_val({n:#x}) = {got:?}"));
        }
    }
    rep.count("version_values_tried", nonmember_vals);
    for mask in [0u32, 1, 0x15, ALL_VERSION_MASK, u32::MAX] {
        let exp: Vec<AutosarVersion> = ALL_VERSIONS.iter().copied().filter(|v| mask & (*v as u32) != 0).collect();
        if expand_version_mask(mask) != exp {
            viol(rep, "versions/expand_mask", "AutosarVersion", format!("expand_version_mask({mask:#x})"));
        }
    }

    // ---- element types: listings vs lookups
    let walk = SpecWalk::new();
    rep.count("element_types", walk.types.len() as u64);
    let stride = if miri { 211 } else { 1 };
    let mut named_types = Vec::new();
    let mut ref_types = Vec::new();
    for (ti, info) in walk.types.iter().enumerate() {
        let t = info.etype;
        if t.is_named() {
            named_types.push(t);
        }
        if t.is_ref() {
            ref_types.push(t);
        }
        if ti % stride != 0 {
            continue;
        }
        // listing: name -> [(type, mask)]
        let mut listed: HashMap<ElementName, Vec<(ElementType, u32)>> = HashMap::new();
        for (name, sub, mask, named_mask) in t.sub_element_spec_iter() {
            listed.entry(name).or_default().push((sub, mask));
            if mask == 0 || mask & !ALL_VERSION_MASK != 0 && mask != u32::MAX {
                // masks are subsets of the 21 known bits
                viol(rep, "types/sub-element-mask-range", "ElementType", format!("{t:?} lists {name:?} with mask {mask:#x}"));
            }
            let nm = sub.is_named();
            if nm != (named_mask != 0) {
                viol(rep, "types/named-mask", "ElementType", format!("{t:?}/{name:?}: is_named={nm} named_mask={named_mask:#x}"));
            }
            for v in ALL_VERSIONS {
                if sub.is_named_in_version(v) != (named_mask & v as u32 != 0) {
                    viol(rep, "types/named-mask", "ElementType", format!("{t:?}/{name:?}: is_named_in_version({v:?}) disagrees with named mask {named_mask:#x}"));
                }
            }
        }
        for (name, entries) in &listed {
            let union: u32 = entries.iter().fold(0, |a, (_, m)| a | m);
            for v in ALL_VERSIONS {
                let bit = v as u32;
                rep.evaluations += 1;
                let found = t.find_sub_element(*name, bit);
                if union & bit != 0 {
                    rep.count("sub_element_lookups_in_version", 1);
                    match found {
                        Some((sub, idx)) => {
                            if !entries.iter().any(|(lt, lm)| *lt == sub && lm & bit != 0) {
                                viol(rep, "types/find_sub_element-type", "ElementType", format!("{t:?}.find_sub_element({name:?}, {v:?}) = {sub:?} which is not listed for that name with a mask containing the version; listed {entries:?}"));
                            }
                            match t.get_sub_element_version_mask(&idx) {
                                Some(m) if m & bit != 0 => {}
                                other => viol(rep, "types/version-mask", "ElementType", format!("{t:?}.get_sub_element_version_mask({idx:?}) for {name:?} = {other:?} does not contain {v:?}")),
                            }
                            if t.get_sub_element_multiplicity(&idx).is_none() {
                                viol(rep, "types/multiplicity", "ElementType", format!("{t:?} {name:?} {idx:?}: no multiplicity"));
                            }
                            let _ = t.get_sub_element_container_mode(&idx);
                        }
                        None => viol(rep, "types/find_sub_element-missing", "ElementType", format!("{t:?} lists {name:?} for {v:?} (mask {union:#x}) but find_sub_element returns None")),
                    }
                } else {
                    rep.count("sub_element_lookups_outside_version", 1);
                    if let Some((sub, idx)) = found {
                        viol(rep, "types/find_sub_element-extra", "ElementType", format!("{t:?}.find_sub_element({name:?}, {v:?}) = ({sub:?}, {idx:?}) although no listed entry has that version (union mask {union:#x})"));
                    }
                }
            }
            // any-version lookup
            match t.find_sub_element(*name, u32::MAX) {
                Some((sub, _)) if entries.iter().any(|(lt, _)| *lt == sub) => {}
                other => viol(rep, "types/find_sub_element-any", "ElementType", format!("{t:?}.find_sub_element({name:?}, MAX) = {other:?}")),
            }
            rep.distinct.insert(hash_str(&format!("sub:{ti}:{}", name.to_str())));
        }
        // names that are not listed must not be found (sample of names)
        for _ in 0..(if miri { 2 } else { 6 }) {
            let (cand, _, _) = ELEMENT_NAME_LISTING[rng.below(ELEMENT_NAME_LISTING.len())];
            if !listed.contains_key(&cand) {
                rep.count("unlisted_sub_element_lookups", 1);
                if let Some(hit) = t.find_sub_element(cand, u32::MAX) {
                    viol(rep, "types/find_sub_element-unlisted", "ElementType", format!("{t:?}.find_sub_element({cand:?}, MAX) = {hit:?} but the listing has no such sub element"));
                }
            }
        }
        // attributes
        let mut listed_attrs = Vec::new();
        for (name, spec, required) in t.attribute_spec_iter() {
            listed_attrs.push(name);
            rep.evaluations += 1;
            rep.count("attribute_lookups", 1);
            rep.distinct.insert(hash_str(&format!("attr:{ti}:{}", name.to_str())));
            match t.find_attribute_spec(name) {
                Some(found) => {
                    if !std::ptr::eq(found.spec, spec) || found.required != required {
                        viol(rep, "types/find_attribute_spec-differs", "ElementType", format!("{t:?} attribute {name:?}: lookup differs from listing"));
                    }
                    if found.version == 0 {
                        viol(rep, "types/attribute-mask", "ElementType", format!("{t:?} attribute {name:?}: version mask 0"));
                    }
                }
                None => viol(rep, "types/find_attribute_spec-missing", "ElementType", format!("{t:?} lists attribute {name:?} but find_attribute_spec returns None")),
            }
        }
        for (cand, _, _) in ATTRIBUTE_NAME_LISTING {
            if !listed_attrs.contains(cand) {
                rep.count("unlisted_attribute_lookups", 1);
                if t.find_attribute_spec(*cand).is_some() {
                    viol(rep, "types/find_attribute_spec-unlisted", "ElementType", format!("{t:?}.find_attribute_spec({cand:?}) is Some but the attribute is not listed"));
                }
            }
        }
    }
    rep.count("named_types", named_types.len() as u64);
    rep.count("reference_types", ref_types.len() as u64);

    // ---- reference dest values
    let rstride = if miri { 300 } else { 1 };
    let nstride = if miri { 100 } else { 1 };
    let mut some = 0u64;
    for (ri, r) in ref_types.iter().enumerate() {
        if ri % rstride != 0 {
            continue;
        }
        let dest_items: Option<&'static [(EnumItem, u32)]> = r.find_attribute_spec(AttributeName::Dest).and_then(|s| {
            if let CharacterDataSpec::Enum { items } = s.spec {
                Some(*items)
            } else {
                None
            }
        });
        for (ni, n) in named_types.iter().enumerate() {
            if ni % nstride != 0 {
                continue;
            }
            rep.evaluations += 1;
            let proposed = match std::panic::catch_unwind(|| r.reference_dest_value(n)) {
                Ok(p) => p,
                Err(_) => {
                    viol(rep, "refs/lookup-panics", "ElementType", format!("{r:?}.reference_dest_value({n:?}) panics"));
                    continue;
                }
            };
            if let Some(d) = proposed {
                some += 1;
                if !n.verify_reference_dest(d) {
                    viol(rep, "refs/dest-not-accepted", "ElementType", format!("{r:?}.reference_dest_value({n:?}) = {d:?} but the target type does not accept it"));
                }
                if !dest_items.is_some_and(|items| items.iter().any(|(i, _)| *i == d)) {
                    viol(rep, "refs/dest-not-in-enum", "ElementType", format!("{r:?}.reference_dest_value({n:?}) = {d:?} is not in the DEST enumeration of the reference"));
                }
            }
        }
        rep.distinct.insert(hash_str(&format!("ref:{ri}")));
    }
    // non reference / non named arguments give None
    for info in walk.types.iter().take(if miri { 50 } else { 2000 }) {
        let t = info.etype;
        if !t.is_ref() {
            if let Some(n) = named_types.first() {
                if t.reference_dest_value(n).is_some() {
                    viol(rep, "refs/non-ref-source", "ElementType", format!("{t:?} is not a reference but proposes a DEST"));
                }
            }
        }
    }
    rep.count("reference_pairs_with_dest", some);
    rep.sample(J::obj().with("kind", J::s("sub-element lookup")).with("type", J::s("ROOT")).with("name", J::s("AR-PACKAGES")).with("versions", J::s("all 21")));
    rep.sample(J::obj().with("kind", J::s("reference pair")).with("reference_types", J::Int(ref_types.len() as i64)).with("named_types", J::Int(named_types.len() as i64)));
    rep.exhaustive = Some(!miri);
    if !miri {
        rep.require("ElementName.members", 6000);
        rep.require("EnumItem.members", 2000);
        rep.require("AttributeName.members", 50);
        rep.require("versions", 21);
        rep.require("element_types", 9000);
        rep.require("sub_element_lookups_in_version", 100_000);
        rep.require("reference_pairs_with_dest", 1000);
        rep.require("non_members_tried", 100_000);
    }
}

// ------------------------------------------------------------------------------------------------
// small sweep for the interpreter (SAN add-on): every lookup function, a seeded sample of members and non-members

fn small_names<T: NameEnum>(listing: &[(T, &str, u32)], rng: &mut Rng, events: &mut u64, viols: &mut Vec<String>) {
    let kind = T::KIND;
    // (no hash set of all member texts here: building it costs the interpreter minutes) a hit whose own text is the candidate is a member
    let wrongly_accepted = |cand: &[u8]| T::parse_bytes(cand).filter(|hit| hit.to_text().as_bytes() != cand);
    for _ in 0..40 {
        let (item, text, n) = &listing[rng.below(listing.len())];
        *events += 1;
        // from_bytes goes through the perfect hash and transmute::<u16, Self>
        if T::parse_bytes(text.as_bytes()) != Some(*item) || T::parse_str(text) != Some(*item) || item.to_text() != *text || item.discr() != *n {
            viols.push(format!("sig=C18:names/member-lookup:{kind} detail={text}"));
        }
        let mut buf = Vec::new();
        neighbours(text, &mut buf);
        for _ in 0..6 {
            let cand = &buf[rng.below(buf.len())];
            *events += 1;
            if let Some(hit) = wrongly_accepted(cand) {
                viols.push(format!("sig=C18:names/non-member-accepted:{kind} detail={:?} -> {hit:?}", crate::json::show_bytes(cand, 60)));
            }
        }
    }
    for cand in [&b""[..], &[0xff, 0xfe], &[0xc3, 0x28], b"\0", &[b'A'; 300]] {
        *events += 1;
        if wrongly_accepted(cand).is_some() {
            viols.push(format!("sig=C18:names/non-member-accepted:{kind} detail={:?}", crate::json::show_bytes(cand, 60)));
        }
    }
}

pub fn small_lookup_sweep(seed: u64) -> (u64, Vec<String>) {
    let mut rng = Rng::derive(seed, "san-lookup", 0);
    let mut events = 0;
    let mut viols = Vec::new();
    small_names(ELEMENT_NAME_LISTING, &mut rng, &mut events, &mut viols);
    small_names(ATTRIBUTE_NAME_LISTING, &mut rng, &mut events, &mut viols);
    small_names(ENUM_ITEM_LISTING, &mut rng, &mut events, &mut viols);
    for (v, xsd, val) in VERSION_LISTING {
        events += 1;
        if AutosarVersion::from_str(xsd).ok() != Some(*v) || AutosarVersion::from_val(*val) != Some(*v) {
            viols.push(format!("sig=C18:versions/lookup detail={xsd}"));
        }
    }
    // element type lookups along a random descent from the root
    for _ in 0..6 {
        let mut t = ElementType::ROOT;
        for _ in 0..12 {
            let subs: Vec<(ElementName, ElementType)> = t
                .sub_element_spec_iter()
                .map(|(name, etype, _, _)| (name, etype))
                .collect();
            if subs.is_empty() {
                break;
            }
            let (name, etype) = subs[rng.below(subs.len())];
            events += 1;
            match t.find_sub_element(name, u32::MAX) {
                Some((found, _)) => {
                    // the same name can be listed under several groups; the lookup must return one of the listed types
                    if found != etype && !subs.iter().any(|(n, e)| *n == name && *e == found) {
                        viols.push(format!("sig=C18:types/find_sub_element detail={name:?}"));
                    }
                    t = found;
                }
                None => {
                    viols.push(format!("sig=C18:types/find_sub_element-none detail={name:?}"));
                    break;
                }
            }
            let _ = t.chardata_spec();
            let _ = t.attribute_spec_iter().count();
            let _ = t.reference_dest_value(&etype);
        }
    }
    (events, viols)
}
