//! C14: permutation independence and idempotence of sort on models built twice through the API in different orders

use crate::json::J;
use crate::monitors::*;
use crate::report::Report;
use crate::rng::{hash_str, Rng};
use crate::walk::*;
use autosar_data::*;

const NAMES: [&str; 23] = [
    "a18446744073709551615", "a18446744073709551616", "a99999999999999999999999", "a2", "a10", "a1b", "a01", "a1", "a001", "a1_0", "sig1", "sig01", "sig001", "b", "B", "ab", "a", "a9", "a10b", "x", "x0", "x00", "a_1",
];

#[derive(Clone, Debug)]
enum Child {
    Pkg { name: String },
    Elem { kind: ElementName, name: String },
    Param { textual: bool, defref: String, value: String, annotations: Vec<String> },
    Container { name: String, defref: Option<String>, index: Option<u64> },
    FibexRef { dest: EnumItem, target: String },
    /// CAN-TP-CONNECTION without name, told apart by a float valued and an unsigned valued child
    TpConn { timeout: f64, max_block: Option<u64> },
}

struct Built {
    model: AutosarModel,
    ok: bool,
}

fn build(version: AutosarVersion, family: usize, children: &[Child], nested_perm: &mut Rng) -> Built {
    let model = AutosarModel::new();
    let mut ok = model.create_file("perm.arxml", version).is_ok();
    let mut run = || -> Result<(), AutosarDataError> {
        let pkgs = model.root_element().create_sub_element(ElementName::ArPackages)?;
        let parent = match family {
            0 => pkgs.clone(),
            1 => pkgs.create_named_sub_element(ElementName::ArPackage, "p")?.create_sub_element(ElementName::Elements)?,
            2 | 3 => {
                let elements = pkgs.create_named_sub_element(ElementName::ArPackage, "p")?.create_sub_element(ElementName::Elements)?;
                let mcv = elements.create_named_sub_element(ElementName::EcucModuleConfigurationValues, "m")?;
                let cont = mcv.create_sub_element(ElementName::Containers)?.create_named_sub_element(ElementName::EcucContainerValue, "c")?;
                if family == 2 {
                    cont.create_sub_element(ElementName::ParameterValues)?
                } else {
                    cont.create_sub_element(ElementName::SubContainers)?
                }
            }
            5 => {
                let elements = pkgs.create_named_sub_element(ElementName::ArPackage, "p")?.create_sub_element(ElementName::Elements)?;
                elements.create_named_sub_element(ElementName::CanTpConfig, "t")?.create_sub_element(ElementName::TpConnections)?
            }
            _ => {
                let elements = pkgs.create_named_sub_element(ElementName::ArPackage, "p")?.create_sub_element(ElementName::Elements)?;
                elements.create_named_sub_element(ElementName::System, "s")?.create_sub_element(ElementName::FibexElements)?
            }
        };
        for c in children {
            match c {
                Child::Pkg { name } => {
                    parent.create_named_sub_element(ElementName::ArPackage, name)?;
                }
                Child::Elem { kind, name } => {
                    parent.create_named_sub_element(*kind, name)?;
                }
                Child::Param { textual, defref, value, annotations } => {
                    let kind = if *textual { ElementName::EcucTextualParamValue } else { ElementName::EcucNumericalParamValue };
                    let p = parent.create_sub_element(kind)?;
                    let d = p.create_sub_element(ElementName::DefinitionRef)?;
                    d.set_attribute(AttributeName::Dest, CharacterData::Enum(if *textual { EnumItem::EcucStringParamDef } else { EnumItem::EcucIntegerParamDef }))?;
                    d.set_character_data(defref.as_str())?;
                    p.create_sub_element(ElementName::Value)?.set_character_data(value.as_str())?;
                    if !annotations.is_empty() {
                        let anns = p.create_sub_element(ElementName::Annotations)?;
                        let mut order: Vec<&String> = annotations.iter().collect();
                        nested_perm.shuffle(&mut order);
                        for a in order {
                            let ann = anns.create_sub_element(ElementName::Annotation)?;
                            ann.create_sub_element(ElementName::AnnotationOrigin)?.set_character_data(a.as_str())?;
                        }
                    }
                }
                Child::Container { name, defref, index } => {
                    let c = parent.create_named_sub_element(ElementName::EcucContainerValue, name)?;
                    if let Some(i) = index {
                        c.create_sub_element(ElementName::Index)?.set_character_data(i.to_string())?;
                    }
                    if let Some(defref) = defref {
                        let d = c.create_sub_element(ElementName::DefinitionRef)?;
                        d.set_attribute(AttributeName::Dest, CharacterData::Enum(EnumItem::EcucParamConfContainerDef))?;
                        d.set_character_data(defref.as_str())?;
                    }
                }
                Child::TpConn { timeout, max_block } => {
                    let c = parent.create_sub_element(ElementName::CanTpConnection)?;
                    if let Some(m) = max_block {
                        c.create_sub_element(ElementName::MaxBlockSize)?.set_character_data(*m)?;
                    }
                    c.create_sub_element(ElementName::TimeoutBr)?.set_character_data(*timeout)?;
                }
                Child::FibexRef { dest, target } => {
                    let cond = parent.create_sub_element(ElementName::FibexElementRefConditional)?;
                    let r = cond.create_sub_element(ElementName::FibexElementRef)?;
                    r.set_attribute(AttributeName::Dest, CharacterData::Enum(*dest))?;
                    r.set_character_data(target.as_str())?;
                }
            }
        }
        Ok(())
    };
    if ok {
        ok = run().is_ok();
    }
    Built { model, ok }
}

fn gen_children(rng: &mut Rng, family: usize) -> Vec<Child> {
    let hi = if rng.chance(1, 8) { 70 } else { 9 };
    let n = rng.range(2, hi);
    let mut names: Vec<String> = NAMES.iter().map(|s| (*s).to_string()).collect();
    for i in 0..60 {
        names.push(format!("n{}", i * 7 % 13));
        names.push(format!("n{i}x"));
        names.push(format!("m0{i}"));
        names.push(format!("m{i}"));
    }
    names.sort();
    names.dedup();
    rng.shuffle(&mut names[20..]);
    let head = names.len().min(20);
    rng.shuffle(&mut names[..head]);
    let mut out = Vec::new();
    let defrefs = ["/d/a", "/d/b", "/d/a2", "/d/a10", "/d/c"];
    for i in 0..n {
        let name = names[i % names.len()].clone();
        out.push(match family {
            0 => Child::Pkg { name },
            1 => Child::Elem {
                kind: *rng.pick(&[ElementName::ISignal, ElementName::System, ElementName::EcuInstance, ElementName::ISignalIPdu]),
                name,
            },
            2 => {
                let k = rng.below(4);
                Child::Param {
                    textual: rng.chance(1, 3),
                    defref: (*rng.pick(&defrefs)).to_string(),
                    value: (*rng.pick(&["1", "2", "10", "x", "02"])).to_string(),
                    annotations: (0..k).map(|_| (*rng.pick(&["n1", "n2", "n10", "z", "a"])).to_string()).collect(),
                }
            }
            3 => Child::Container {
                name,
                // some containers without DEFINITION-REF: the comparison must stay a total order when only one side has the key
                defref: if rng.chance(3, 4) { Some((*rng.pick(&defrefs)).to_string()) } else { None },
                index: if rng.chance(1, 2) { Some(rng.below(12) as u64) } else { None },
            },
            5 => Child::TpConn {
                timeout: *rng.pick(&[0.0, -0.0, 1.0, 2.0, 10.0, 0.5, -1.0, f64::NAN, f64::INFINITY, f64::NEG_INFINITY, 1e-310]),
                max_block: if rng.chance(1, 2) { Some(*rng.pick(&[0u64, 2, 10, 9])) } else { None },
            },
            _ => Child::FibexRef {
                dest: *rng.pick(&[EnumItem::ISignal, EnumItem::EcuInstance, EnumItem::ISignalIPdu]),
                target: format!("/p/{}", rng.pick(&NAMES)),
            },
        });
    }
    // duplicates of keyless children are legitimate (equal siblings)
    if family == 2 && rng.chance(1, 2) {
        let c = out[0].clone();
        out.push(c);
    }
    out
}

pub fn run(rep: &mut Report, tier: &str) {
    let cases = if tier == "thorough" { 60_000 } else { 4_000 };
    let seed = rep.seed;
    let shards = 32;
    let per = cases / shards;
    crate::report::run_shards(rep, shards, crate::report::cpu_count(), 64, |shard, sub| {
        for j in 0..per {
            let case = (shard * per + j) as u64;
            let mut rng = Rng::derive(seed, "c14perm", case);
            let family = rng.below(6);
            let version = *rng.pick(&crate::specwalk::ALL_VERSIONS[8..]);
            let children = gen_children(&mut rng, family);
            let mut shuffled = children.clone();
            rng.shuffle(&mut shuffled);
            let mut n1 = Rng::derive(seed, "nested-a", case);
            let mut n2 = Rng::derive(seed, "nested-b", case);
            let r = crate::panicmon::catch(|| {
                let a = build(version, family, &children, &mut n1);
                let b = build(version, family, &shuffled, &mut n2);
                (a, b)
            });
            let (a, b) = match r {
                Ok(x) => x,
                Err(ab) => {
                    sub.count("perm.build_panicked(belongs to C12)", 1);
                    let _ = ab;
                    continue;
                }
            };
            if !a.ok || !b.ok {
                sub.count("perm.discarded_build_failed", 1);
                continue;
            }
            let ta = Tree::of_model(&a.model);
            let tb = Tree::of_model(&b.model);
            let ca = crate::histprops2::canon(&ta, 0);
            let cb = crate::histprops2::canon(&tb, 0);
            if ca != cb {
                sub.inconclusive("perm: the two builds do not have the same content (harness)");
                continue;
            }
            let sorted = crate::panicmon::catch(|| {
                a.model.sort();
                b.model.sort();
            });
            let label = ["packages", "elements-mixed-kinds", "bsw-parameter-values", "bsw-sub-containers-index", "keyless-references", "keyless-numeric-values"][family];
            let replay = || {
                J::obj()
                    .with("engine", J::s("c14perm"))
                    .with("seed", J::Int(seed as i64))
                    .with("case", J::Int(case as i64))
                    .with("family", J::s(label))
                    .with("children_order_a", J::arr_of_str(children.iter().map(|c| format!("{c:?}"))))
                    .with("children_order_b", J::arr_of_str(shuffled.iter().map(|c| format!("{c:?}"))))
            };
            if let Err(ab) = sorted {
                sub.violation("sort/panics", &format!("C14:sort/panics:{}:{label}", ab.signature()), &ab.describe(), replay());
                continue;
            }
            let text_a = a.model.root_element().serialize();
            let text_b = b.model.root_element().serialize();
            sub.eval(Some(hash_str(&text_a) ^ case));
            sub.count("perm.cases", 1);
            sub.count(&format!("perm.family.{label}"), 1);
            if case < 3 {
                sub.sample(J::obj().with("family", J::s(label)).with("order_a", J::arr_of_str(children.iter().take(6).map(|c| format!("{c:?}")))).with("order_b", J::arr_of_str(shuffled.iter().take(6).map(|c| format!("{c:?}")))));
            }
            if text_a != text_b {
                sub.violation(
                    "sort/depends-on-initial-order",
                    &format!("C14:sort/depends-on-initial-order:{label}"),
                    &format!("two models with the same content built in different sibling orders sort to different texts: {}", crate::histprops::first_diff(&text_a, &text_b)),
                    replay(),
                );
            }
            let ta2 = Tree::of_model(&a.model);
            if crate::histprops2::canon(&ta2, 0) != ca {
                sub.violation("sort/content-not-preserved", &format!("C14:sort/content-not-preserved:{label}"), "the content changed", replay());
            }
            a.model.sort();
            let text_a2 = a.model.root_element().serialize();
            if text_a2 != text_a {
                sub.violation(
                    "sort/not-idempotent",
                    &format!("C14:sort/not-idempotent:{label}"),
                    &format!("sorting twice differs from sorting once: {}", crate::histprops::first_diff(&text_a, &text_a2)),
                    replay(),
                );
            }
            let mut seen = Seen::default();
            let t = Tree::of_model(&a.model);
            let mut v = m_tree(&a.model, &t, false);
            v.extend(m_index(&a.model, &t, &[], &mut seen));
            v.extend(m_refs(&a.model, &t, &mut seen));
            for x in v {
                sub.violation(&x.rule, &format!("C14:{}:{}:after=sort-perm", x.rule, x.pred), &x.detail, replay());
            }
        }
    });
    rep.require("perm.cases", (cases / 2) as u64);
    rep.require("perm.family.keyless-numeric-values", (cases / 20) as u64);
}

// ------------------------------------------------------------------------------------------------
// deep permutation: documents cut from the whole-specification corpus, same-kind siblings multiplied at every nesting level
// (also below ordered elements), two renderings that differ only in the order of reorderable siblings

use crate::refxml::{RefItem, RefNode};
use autosar_data_specification::{ContentMode, ElementMultiplicity, ElementType};
use std::str::FromStr;

fn child_et(parent: ElementType, name: &str, version: AutosarVersion) -> Option<(ElementType, Vec<usize>)> {
    let n = ElementName::from_str(name).ok()?;
    parent.find_sub_element(n, version as u32)
}

/// make `n` differ from its original: suffix every SHORT-NAME in it; Err if it has no SHORT-NAME at all
fn rename_all(n: &mut RefNode, suffix: &str, renamed: &mut usize) {
    for item in n.items.iter_mut() {
        if let RefItem::Elem(c) = item {
            if c.name == "SHORT-NAME" {
                if let Some(RefItem::Text(t, _, _)) = c.items.first_mut() {
                    t.push_str(suffix);
                    *renamed += 1;
                }
            } else {
                rename_all(c, suffix, renamed);
            }
        }
    }
}

/// give `n` another value for one of its attributes (an enum item valid in the version, or a free string); false if the element
/// type has no attribute that can be varied safely. Identifiable elements are left alone (their name must change as well).
fn vary_attribute(rng: &mut Rng, n: &mut RefNode, et: ElementType, version: AutosarVersion, counter: usize) -> bool {
    use autosar_data_specification::CharacterDataSpec;
    if matches!(n.items.first(), Some(RefItem::Elem(sn)) if sn.name == "SHORT-NAME") {
        return false;
    }
    let mut cands: Vec<(String, String)> = Vec::new();
    for (name, spec, _required) in et.attribute_spec_iter() {
        let Some(aspec) = et.find_attribute_spec(name) else { continue };
        if aspec.version & version as u32 == 0 || name == AttributeName::Dest {
            continue;
        }
        let current = n.attrs.iter().find(|(k, _)| k == name.to_str()).map(|(_, v)| v.clone());
        match spec {
            CharacterDataSpec::Enum { items } => {
                let others: Vec<&str> = items.iter().filter(|(i, m)| m & version as u32 != 0 && Some(i.to_str()) != current.as_deref()).map(|(i, _)| i.to_str()).collect();
                if let Some(o) = rng.pick_opt(&others) {
                    cands.push((name.to_str().to_string(), (*o).to_string()));
                }
            }
            CharacterDataSpec::String { max_length, .. } if max_length.is_none_or(|m| m > 12) => cands.push((name.to_str().to_string(), format!("v{counter}"))),
            _ => {}
        }
    }
    let Some((k, v)) = rng.pick_opt(&cands).cloned() else { return false };
    match n.attrs.iter_mut().find(|(name, _)| *name == k) {
        Some(slot) => slot.1 = v,
        None => n.attrs.push((k, v)),
    }
    true
}

/// multiply children that may occur any number of times (clone with renamed SHORT-NAMEs), at every level
fn multiply(rng: &mut Rng, n: &mut RefNode, et: ElementType, version: AutosarVersion, counter: &mut usize, below_ordered: bool, stats: &mut (u64, u64, u64)) {
    let mode = et.content_mode();
    if !matches!(mode, ContentMode::Sequence | ContentMode::Choice | ContentMode::Bag) {
        return;
    }
    let ordered_here = et.is_ordered();
    let mut out: Vec<RefItem> = Vec::new();
    for item in std::mem::take(&mut n.items) {
        let RefItem::Elem(mut c) = item else {
            out.push(item);
            continue;
        };
        let Some((cet, idx)) = child_et(et, &c.name, version) else {
            out.push(RefItem::Elem(c));
            continue;
        };
        multiply(rng, &mut c, cet, version, counter, below_ordered || ordered_here, stats);
        // repeatable: multiplicity "any", or an alternative of a repeatable group (bag)
        let any = et.get_sub_element_multiplicity(&idx) == Some(ElementMultiplicity::Any) || et.get_sub_element_container_mode(&idx) == ContentMode::Bag;
        if any && c.name != "SHORT-NAME" && (rng.chance(1, 3) || ((below_ordered || ordered_here) && rng.chance(2, 3))) {
            let copies = rng.range(1, 2);
            let mut group = vec![c.clone()];
            for _ in 0..copies {
                let mut d = c.clone();
                *counter += 1;
                let mut renamed = 0;
                // every other clone of an element with attributes differs from its original in one attribute value only
                let by_attribute = *counter % 2 == 0 && vary_attribute(rng, &mut d, cet, version, *counter);
                if by_attribute {
                    stats.2 += 1;
                    group.push(d);
                    continue;
                }
                rename_all(&mut d, &format!("_p{counter}"), &mut renamed);
                if renamed > 0 || vary_attribute(rng, &mut d, cet, version, *counter) {
                    if renamed == 0 {
                        stats.2 += 1;
                    }
                    group.push(d);
                }
            }
            if group.len() > 1 {
                stats.0 += 1;
                if below_ordered {
                    stats.1 += 1;
                }
            }
            out.extend(group.into_iter().map(RefItem::Elem));
        } else {
            out.push(RefItem::Elem(c));
        }
    }
    n.items = out;
}

/// shuffle reorderable siblings: runs of the same kind where the parent is not ordered (all children in a bag)
fn permute(rng: &mut Rng, n: &mut RefNode, et: ElementType, version: AutosarVersion) {
    let mode = et.content_mode();
    if !matches!(mode, ContentMode::Sequence | ContentMode::Choice | ContentMode::Bag) {
        return;
    }
    for item in n.items.iter_mut() {
        if let RefItem::Elem(c) = item {
            if let Some((cet, _)) = child_et(et, &c.name, version) {
                permute(rng, c, cet, version);
            }
        }
    }
    if et.is_ordered() {
        return;
    }
    let mut i = 0;
    while i < n.items.len() {
        let name_i = match &n.items[i] {
            RefItem::Elem(c) => c.name.clone(),
            RefItem::Text(..) => {
                i += 1;
                continue;
            }
        };
        let mut j = i + 1;
        while j < n.items.len() && matches!(&n.items[j], RefItem::Elem(c) if c.name == name_i) {
            j += 1;
        }
        if j - i > 1 {
            rng.shuffle(&mut n.items[i..j]);
        }
        i = j;
    }
}

/// does the subtree contain an element whose type is ordered (sorting must not permute its children, but must descend below it)
fn has_ordered(n: &RefNode, et: ElementType, version: AutosarVersion) -> bool {
    if et.is_ordered() && n.items.iter().any(|i| matches!(i, RefItem::Elem(c) if c.items.iter().any(|x| matches!(x, RefItem::Elem(_))))) {
        return true;
    }
    n.items.iter().any(|i| match i {
        RefItem::Elem(c) => child_et(et, &c.name, version).is_some_and(|(cet, _)| has_ordered(c, cet, version)),
        RefItem::Text(..) => false,
    })
}

static ORDERED_CHUNKS: std::sync::OnceLock<std::sync::Mutex<std::collections::HashMap<u32, std::sync::Arc<Vec<usize>>>>> = std::sync::OnceLock::new();

/// indices of the package level chunks of a version that contain ordered elements with structured children
fn ordered_chunks(version: AutosarVersion, seed: u64) -> std::sync::Arc<Vec<usize>> {
    let map = ORDERED_CHUNKS.get_or_init(Default::default);
    if let Some(v) = map.lock().unwrap().get(&(version as u32)) {
        return v.clone();
    }
    let sd = crate::docgen::spec_doc(version, seed);
    let et = crate::docgen::elements_type(version);
    let list: Vec<usize> = sd.chunks.iter().enumerate().filter(|(_, c)| child_et(et, &c.name, version).is_some_and(|(cet, _)| has_ordered(c, cet, version))).map(|(i, _)| i).collect();
    let arc = std::sync::Arc::new(list);
    map.lock().unwrap().insert(version as u32, arc.clone());
    arc
}

pub fn run_deep(rep: &mut Report, tier: &str) {
    let cases = if tier == "thorough" { 20_000 } else { 1_200 };
    let seed = rep.seed;
    let shards = 32;
    let per = cases / shards;
    crate::report::run_shards(rep, shards, crate::report::cpu_count(), 64, |shard, sub| {
        for j in 0..per {
            let case = (shard * per + j) as u64;
            let mut rng = Rng::derive(seed, "c14deep", case);
            let version = crate::docgen::random_version(&mut rng);
            let (mut doc, _) = if case % 2 == 0 {
                crate::docgen::random_chunk_doc(&mut rng, seed, version, 3, false)
            } else {
                // a chunk with ordered elements inside
                let oc = ordered_chunks(version, seed);
                if oc.is_empty() {
                    crate::docgen::random_chunk_doc(&mut rng, seed, version, 3, false)
                } else {
                    let sd = crate::docgen::spec_doc(version, seed);
                    let c = sd.chunks[*rng.pick(&oc)].clone();
                    (crate::docgen::chunk_doc(version, vec![c], "p"), 0)
                }
            };
            let mut counter = 0;
            let mut stats = (0u64, 0u64, 0u64);
            multiply(&mut rng, &mut doc.root, ElementType::ROOT, version, &mut counter, false, &mut stats);
            if stats.0 == 0 {
                sub.count("deep.discarded_nothing_multiplied", 1);
                continue;
            }
            let mut doc_b = doc.clone();
            permute(&mut rng, &mut doc_b.root, ElementType::ROOT, version);
            let bytes_a = crate::refxml::render(&mut rng, crate::refxml::Style::plain(), &doc);
            let bytes_b = crate::refxml::render(&mut rng, crate::refxml::Style::plain(), &doc_b);
            if bytes_a == bytes_b {
                sub.count("deep.discarded_same_order", 1);
                continue;
            }
            let ma = AutosarModel::new();
            let mb = AutosarModel::new();
            let (Ok(_), Ok(_)) = (ma.load_buffer(&bytes_a, "a.arxml", true), mb.load_buffer(&bytes_b, "a.arxml", true)) else {
                sub.count("deep.discarded_not_strictly_loadable", 1);
                continue;
            };
            let replay = || J::obj().with("engine", J::s("c14deep")).with("seed", J::Int(seed as i64)).with("case", J::Int(case as i64)).with("document_a", J::s(String::from_utf8_lossy(&bytes_a[..bytes_a.len().min(30_000)]).to_string())).with("document_b", J::s(String::from_utf8_lossy(&bytes_b[..bytes_b.len().min(30_000)]).to_string()));
            let ca = crate::histprops2::canon(&Tree::of_model(&ma), 0);
            let cb = crate::histprops2::canon(&Tree::of_model(&mb), 0);
            if ca != cb {
                sub.inconclusive("deep: the two renderings do not have the same content (harness)");
                continue;
            }
            if let Err(ab) = crate::panicmon::catch(|| {
                ma.sort();
                mb.sort();
            }) {
                sub.violation("sort/panics", &format!("C14:sort/panics:{}:deep", ab.signature()), &ab.describe(), replay());
                continue;
            }
            let text_a = ma.root_element().serialize();
            let text_b = mb.root_element().serialize();
            sub.eval(Some(hash_str(&text_a) ^ case));
            sub.count("deep.cases", 1);
            sub.count("deep.sibling_groups_multiplied", stats.0);
            sub.count("deep.sibling_groups_below_ordered_elements", stats.1);
            sub.count("deep.clones_that_differ_in_one_attribute_only", stats.2);
            let where_ = if stats.1 > 0 { "deep-with-groups-below-ordered-elements" } else { "deep" };
            if text_a != text_b {
                sub.violation(
                    "sort/depends-on-initial-order",
                    &format!("C14:sort/depends-on-initial-order:{where_}"),
                    &format!("two documents that differ only in the order of reorderable siblings sort to different texts: {}", crate::histprops::first_diff(&text_a, &text_b)),
                    replay(),
                );
            }
            if crate::histprops2::canon(&Tree::of_model(&ma), 0) != ca {
                sub.violation("sort/content-not-preserved", "C14:sort/content-not-preserved:deep", "the content changed", replay());
            }
            ma.sort();
            let text_a2 = ma.root_element().serialize();
            if text_a2 != text_a {
                sub.violation("sort/not-idempotent", "C14:sort/not-idempotent:deep", &format!("sorting twice differs from sorting once: {}", crate::histprops::first_diff(&text_a, &text_a2)), replay());
            }
        }
    });
    rep.require("deep.cases", (cases / 3) as u64);
    rep.require("deep.sibling_groups_below_ordered_elements", 20);
    rep.require("deep.clones_that_differ_in_one_attribute_only", 50);
}
