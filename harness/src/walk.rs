//! reference walk over a model (recursive descent over `content()`), canonical dumps and hashes

use autosar_data::*;
use std::collections::{BTreeSet, HashMap};
use std::fmt::Write as _;

pub struct Node {
    pub elem: Element,
    pub parent: Option<usize>,
    pub depth: usize,
    /// index in the parent's content list
    pub pos: usize,
    pub children: Vec<usize>,
    /// content items: Ok(node index) for elements, Err(cdata) for character data
    pub items: Vec<Result<usize, CharacterData>>,
}

pub struct Tree {
    pub nodes: Vec<Node>,
    pub index: HashMap<Element, usize>,
    /// an element object was met twice during the walk (tree property broken)
    pub duplicates: Vec<Element>,
    /// the files of the model at the time of the walk (identity, not name, decides membership)
    pub files: Vec<ArxmlFile>,
}

pub const MAX_WALK_DEPTH: usize = 2000;

impl Tree {
    pub fn of_model(model: &AutosarModel) -> Tree {
        let mut t = Tree::of_element(&model.root_element());
        t.files = model.files().collect();
        t
    }

    pub fn of_element(root: &Element) -> Tree {
        let mut t = Tree {
            nodes: Vec::new(),
            index: HashMap::new(),
            duplicates: Vec::new(),
            files: Vec::new(),
        };
        t.descend(root.clone(), None, 0, 0);
        t
    }

    fn descend(&mut self, elem: Element, parent: Option<usize>, depth: usize, pos: usize) -> usize {
        let my = self.nodes.len();
        if self.index.insert(elem.clone(), my).is_some() {
            self.duplicates.push(elem.clone());
        }
        self.nodes.push(Node {
            elem: elem.clone(),
            parent,
            depth,
            pos,
            children: Vec::new(),
            items: Vec::new(),
        });
        if depth >= MAX_WALK_DEPTH || self.duplicates.len() > 8 {
            return my;
        }
        let content: Vec<ElementContent> = elem.content().collect();
        for (i, item) in content.into_iter().enumerate() {
            match item {
                ElementContent::Element(sub) => {
                    let ci = self.descend(sub, Some(my), depth + 1, i);
                    self.nodes[my].children.push(ci);
                    self.nodes[my].items.push(Ok(ci));
                }
                ElementContent::CharacterData(cd) => self.nodes[my].items.push(Err(cd)),
            }
        }
        my
    }

    pub fn contains(&self, e: &Element) -> bool {
        self.index.contains_key(e)
    }

    /// position path "0.2.1" of a node (content indices from the root)
    pub fn pos_path(&self, mut i: usize) -> String {
        let mut parts = Vec::new();
        while let Some(p) = self.nodes[i].parent {
            parts.push(self.nodes[i].pos.to_string());
            i = p;
        }
        parts.reverse();
        if parts.is_empty() {
            "/".to_string()
        } else {
            parts.join(".")
        }
    }

    pub fn pos_path_of(&self, e: &Element) -> Option<String> {
        self.index.get(e).map(|i| self.pos_path(*i))
    }

    /// oracle path: concatenation of the item names of identifiable ancestors and the element itself
    pub fn oracle_path(&self, i: usize) -> String {
        let mut parts = Vec::new();
        let mut cur = Some(i);
        while let Some(c) = cur {
            let e = &self.nodes[c].elem;
            if e.is_identifiable() {
                if let Some(n) = e.item_name() {
                    parts.push(n);
                }
            }
            cur = self.nodes[c].parent;
        }
        parts.push(String::new());
        parts.reverse();
        parts.join("/")
    }

    /// descendants (node indices) of i including i, in document order
    pub fn subtree(&self, i: usize) -> Vec<usize> {
        let mut out = Vec::new();
        let mut stack = vec![i];
        while let Some(n) = stack.pop() {
            out.push(n);
            for c in self.nodes[n].children.iter().rev() {
                stack.push(*c);
            }
        }
        out
    }
}

pub fn cdata_str(cd: &CharacterData) -> String {
    match cd {
        CharacterData::Enum(e) => format!("E:{}", e.to_str()),
        CharacterData::String(s) => format!("S:{s:?}"),
        CharacterData::UnsignedInteger(u) => format!("U:{u}"),
        CharacterData::Float(f) => format!("F:{:016x}", if f.is_nan() { f64::NAN.to_bits() } else { f.to_bits() }),
    }
}

pub fn file_label(f: &ArxmlFile) -> String {
    f.filename().to_string_lossy().into_owned()
}

/// local file membership of an element as sorted list of labels; None if inherited or unavailable.
/// Files that are not files of the model (`files`) are labelled as foreign.
pub fn local_files(e: &Element, files: &[ArxmlFile]) -> Option<Vec<String>> {
    match e.file_membership() {
        Ok((true, set)) => {
            let mut v: Vec<String> = set
                .iter()
                .map(|w| match w.upgrade() {
                    None => "<dead-file>".to_string(),
                    Some(f) if files.contains(&f) => file_label(&f),
                    Some(f) => format!("<foreign:{}>", file_label(&f)),
                })
                .collect();
            v.sort();
            Some(v)
        }
        _ => None,
    }
}

#[derive(Clone, Copy, Default)]
pub struct DumpOpts {
    /// include local file membership
    pub membership: bool,
    /// normalise what a save/load cycle legitimately normalises: drop empty string items, merge adjacent text items
    pub normalise_text: bool,
    /// skip the attributes of the root element (the schema location is rewritten by serialize)
    pub skip_root_attrs: bool,
    /// omit comments
    pub no_comments: bool,
}

fn dump_node(t: &Tree, i: usize, opts: &DumpOpts, filter: &dyn Fn(usize) -> bool, out: &mut String) {
    let n = &t.nodes[i];
    let e = &n.elem;
    for _ in 0..n.depth {
        out.push(' ');
    }
    out.push_str(e.element_name().to_str());
    if !(opts.skip_root_attrs && n.parent.is_none()) {
        for a in e.attributes() {
            let _ = write!(out, " @{}={}", a.attrname.to_str(), cdata_str(&a.content));
        }
    }
    if !opts.no_comments {
        if let Some(c) = e.comment() {
            let _ = write!(out, " #{c:?}");
        }
    }
    if opts.membership {
        if let Some(files) = local_files(e, &t.files) {
            let _ = write!(out, " files={files:?}");
        }
    }
    out.push('\n');
    let mut pending_text: Option<String> = None;
    let flush = |pending: &mut Option<String>, out: &mut String, depth: usize| {
        if let Some(t) = pending.take() {
            for _ in 0..=depth {
                out.push(' ');
            }
            let _ = writeln!(out, "S:{t:?}");
        }
    };
    for item in &n.items {
        match item {
            Ok(ci) => {
                if filter(*ci) {
                    flush(&mut pending_text, out, n.depth);
                    dump_node(t, *ci, opts, filter, out);
                }
            }
            Err(cd) => {
                if opts.normalise_text {
                    if let CharacterData::String(s) = cd {
                        if !s.is_empty() {
                            match &mut pending_text {
                                Some(p) => p.push_str(s),
                                None => pending_text = Some(s.clone()),
                            }
                        }
                        continue;
                    }
                }
                flush(&mut pending_text, out, n.depth);
                for _ in 0..=n.depth {
                    out.push(' ');
                }
                out.push_str(&cdata_str(cd));
                out.push('\n');
            }
        }
    }
    flush(&mut pending_text, out, n.depth);
}

pub fn dump_tree(t: &Tree, opts: &DumpOpts) -> String {
    let mut out = String::new();
    if !t.nodes.is_empty() {
        dump_node(t, 0, opts, &|_| true, &mut out);
    }
    out
}

pub fn dump_tree_filtered(t: &Tree, opts: &DumpOpts, filter: &dyn Fn(usize) -> bool) -> String {
    let mut out = String::new();
    if !t.nodes.is_empty() {
        dump_node(t, 0, opts, filter, &mut out);
    }
    out
}

pub fn dump_subtree(t: &Tree, i: usize, opts: &DumpOpts) -> String {
    let mut out = String::new();
    dump_node(t, i, opts, &|_| true, &mut out);
    out
}

/// everything the properties call observable, pointer free
pub fn dump_full(model: &AutosarModel) -> String {
    let t = Tree::of_model(model);
    let mut out = dump_tree(
        &t,
        &DumpOpts {
            membership: true,
            ..Default::default()
        },
    );
    out.push_str("--files\n");
    for f in model.files() {
        let _ = writeln!(out, "{} {:?} standalone={:?}", file_label(&f), f.version(), f.xml_standalone());
    }
    out.push_str("--index\n");
    let mut idx: Vec<String> = model
        .identifiable_elements()
        .map(|(p, w)| {
            let target = match w.upgrade() {
                Some(e) => t.pos_path_of(&e).unwrap_or_else(|| "<outside-tree>".into()),
                None => "<dead>".into(),
            };
            format!("{p} -> {target}")
        })
        .collect();
    idx.sort();
    for l in idx {
        out.push_str(&l);
        out.push('\n');
    }
    out.push_str("--referrers\n");
    for (key, list) in model.verif_reference_origins() {
        let mut items: Vec<String> = list
            .iter()
            .filter_map(|w| w.upgrade())
            .map(|e| t.pos_path_of(&e).unwrap_or_else(|| "<outside-tree>".into()))
            .collect();
        items.sort();
        if !items.is_empty() {
            let _ = writeln!(out, "{key} <- {items:?}");
        }
    }
    out
}

/// the set of file labels an element is effectively in (top-down rule: inherited unless a local set exists)
pub fn effective_files(t: &Tree, model: &AutosarModel) -> Vec<BTreeSet<String>> {
    let all: BTreeSet<String> = model.files().map(|f| file_label(&f)).collect();
    let mut eff: Vec<BTreeSet<String>> = Vec::with_capacity(t.nodes.len());
    for (i, n) in t.nodes.iter().enumerate() {
        let parent_eff = match n.parent {
            Some(p) => eff[p].clone(),
            None => all.clone(),
        };
        let mine = match local_files(&n.elem, &t.files) {
            Some(local) => {
                let local: BTreeSet<String> = local.into_iter().collect();
                // an element is written to file f iff its parent is written to f and f is in its local set
                local.intersection(&parent_eff).cloned().collect()
            }
            None => parent_eff,
        };
        debug_assert_eq!(eff.len(), i);
        eff.push(mine);
    }
    eff
}
