//! independent XML reference reader and writer (shares no code with the crate's lexer/parser)

use crate::rng::Rng;

#[derive(Clone, Debug)]
pub struct RefNode {
    pub name: String,
    /// attribute name, decoded value
    pub attrs: Vec<(String, String)>,
    pub items: Vec<RefItem>,
    /// the comment token directly preceding the start tag (ignoring whitespace)
    pub comment: Option<String>,
    pub line_start: usize,
    pub line_end: usize,
    /// 1-based line span of the start tag (attributes live here)
    pub tag_line_start: usize,
    pub tag_line_end: usize,
}

#[derive(Clone, Debug)]
pub enum RefItem {
    Elem(RefNode),
    /// decoded text (not trimmed), line span
    Text(String, usize, usize),
}

#[derive(Clone, Debug)]
pub struct RefDoc {
    pub bom: bool,
    pub standalone: Option<bool>,
    pub root: RefNode,
}

pub fn decode_entities(s: &str) -> Result<String, String> {
    if !s.contains('&') {
        return Ok(s.to_string());
    }
    let mut out = String::with_capacity(s.len());
    let mut rest = s;
    while let Some(p) = rest.find('&') {
        out.push_str(&rest[..p]);
        rest = &rest[p..];
        let end = rest.find(';').ok_or_else(|| format!("unterminated entity in {s:?}"))?;
        let ent = &rest[1..end];
        match ent {
            "lt" => out.push('<'),
            "gt" => out.push('>'),
            "amp" => out.push('&'),
            "apos" => out.push('\''),
            "quot" => out.push('"'),
            _ => {
                let cp = if let Some(h) = ent.strip_prefix("#x") {
                    u32::from_str_radix(h, 16).map_err(|_| format!("bad char ref &{ent};"))?
                } else if let Some(d) = ent.strip_prefix('#') {
                    d.parse::<u32>().map_err(|_| format!("bad char ref &{ent};"))?
                } else {
                    return Err(format!("unknown entity &{ent};"));
                };
                out.push(char::from_u32(cp).ok_or_else(|| format!("invalid code point in &{ent};"))?);
            }
        }
        rest = &rest[end + 1..];
    }
    out.push_str(rest);
    Ok(out)
}

struct Reader<'a> {
    b: &'a [u8],
    pos: usize,
    line: usize,
}

enum Tok {
    Start { name: String, attrs: Vec<(String, String)>, empty: bool, l0: usize, l1: usize },
    End { name: String, l1: usize },
    Text(String, usize, usize),
    Comment(String),
    Pi(String),
    Eof,
}

impl Reader<'_> {
    fn count(&mut self, from: usize, to: usize) {
        self.line += self.b[from..to].iter().filter(|c| **c == b'\n').count();
    }

    fn next(&mut self) -> Result<Tok, String> {
        if self.pos >= self.b.len() {
            return Ok(Tok::Eof);
        }
        let start = self.pos;
        if self.b[start] != b'<' {
            let end = self.b[start..].iter().position(|c| *c == b'<').map_or(self.b.len(), |p| start + p);
            let l0 = self.line;
            self.count(start, end);
            self.pos = end;
            let raw = std::str::from_utf8(&self.b[start..end]).map_err(|e| format!("text is not utf-8: {e}"))?;
            return Ok(Tok::Text(decode_entities(raw)?, l0, self.line));
        }
        let rest = &self.b[start..];
        if rest.starts_with(b"<!--") {
            let end = find(rest, b"-->", 4).ok_or("unterminated comment")?;
            let text = String::from_utf8_lossy(&rest[4..end]).into_owned();
            self.count(start, start + end + 3);
            self.pos = start + end + 3;
            return Ok(Tok::Comment(text));
        }
        if rest.starts_with(b"<?") {
            let end = find(rest, b"?>", 2).ok_or("unterminated processing instruction")?;
            let text = String::from_utf8_lossy(&rest[2..end]).into_owned();
            self.count(start, start + end + 2);
            self.pos = start + end + 2;
            return Ok(Tok::Pi(text));
        }
        // a tag: find the closing '>' outside of quotes
        let mut i = 1;
        let mut quote: Option<u8> = None;
        while i < rest.len() {
            let c = rest[i];
            match quote {
                Some(q) if c == q => quote = None,
                Some(_) => {}
                None if c == b'"' || c == b'\'' => quote = Some(c),
                None if c == b'>' => break,
                None => {}
            }
            i += 1;
        }
        if i >= rest.len() {
            return Err("unterminated tag".into());
        }
        let inner = std::str::from_utf8(&rest[1..i]).map_err(|e| format!("tag is not utf-8: {e}"))?;
        let l0 = self.line;
        self.count(start, start + i + 1);
        self.pos = start + i + 1;
        if let Some(name) = inner.strip_prefix('/') {
            return Ok(Tok::End { name: name.trim().to_string(), l1: self.line });
        }
        let (body, empty) = match inner.strip_suffix('/') {
            Some(b) => (b, true),
            None => (inner, false),
        };
        let name_end = body.find(|c: char| c.is_ascii_whitespace()).unwrap_or(body.len());
        let name = body[..name_end].to_string();
        let mut attrs = Vec::new();
        let mut r = body[name_end..].trim_start();
        while !r.is_empty() {
            let eq = r.find('=').ok_or_else(|| format!("attribute without '=' in <{inner}>"))?;
            let aname = r[..eq].trim().to_string();
            let after = r[eq + 1..].trim_start();
            let q = after.chars().next().ok_or("missing attribute value")?;
            if q != '"' && q != '\'' {
                return Err(format!("unquoted attribute value in <{inner}>"));
            }
            let close = after[1..].find(q).ok_or("unterminated attribute value")?;
            attrs.push((aname, decode_entities(&after[1..1 + close])?));
            r = after[close + 2..].trim_start();
        }
        Ok(Tok::Start { name, attrs, empty, l0, l1: self.line })
    }
}

fn find(hay: &[u8], needle: &[u8], from: usize) -> Option<usize> {
    (from..hay.len().saturating_sub(needle.len() - 1)).find(|i| hay[*i..].starts_with(needle))
}

pub fn parse(bytes: &[u8]) -> Result<RefDoc, String> {
    let bom = bytes.starts_with(&[0xef, 0xbb, 0xbf]);
    let mut rd = Reader { b: bytes, pos: if bom { 3 } else { 0 }, line: 1 };
    let mut standalone = None;
    let mut pending_comment: Option<String> = None;
    let mut stack: Vec<RefNode> = Vec::new();
    let mut root: Option<RefNode> = None;
    loop {
        match rd.next()? {
            Tok::Eof => break,
            Tok::Pi(text) => {
                if text.starts_with("xml ") || text == "xml" {
                    if text.contains("standalone=\"yes\"") || text.contains("standalone='yes'") {
                        standalone = Some(true);
                    } else if text.contains("standalone=") {
                        standalone = Some(false);
                    }
                }
            }
            Tok::Comment(c) => pending_comment = Some(c),
            Tok::Text(t, l0, l1) => {
                if t.chars().all(|c| c.is_ascii_whitespace()) {
                    // insignificant; does not detach a preceding comment
                    continue;
                }
                pending_comment = None;
                match stack.last_mut() {
                    Some(top) => top.items.push(RefItem::Text(t, l0, l1)),
                    None => return Err("text outside of the root element".into()),
                }
            }
            Tok::Start { name, attrs, empty, l0, l1 } => {
                if root.is_some() && stack.is_empty() {
                    return Err("second root element".into());
                }
                let node = RefNode {
                    name,
                    attrs,
                    items: Vec::new(),
                    comment: pending_comment.take(),
                    line_start: l0,
                    line_end: l1,
                    tag_line_start: l0,
                    tag_line_end: l1,
                };
                if empty {
                    match stack.last_mut() {
                        Some(top) => top.items.push(RefItem::Elem(node)),
                        None => root = Some(node),
                    }
                } else {
                    stack.push(node);
                }
            }
            Tok::End { name, l1 } => {
                pending_comment = None;
                let mut node = stack.pop().ok_or("end tag without start tag")?;
                if node.name != name {
                    return Err(format!("end tag </{name}> does not match <{}>", node.name));
                }
                node.line_end = l1;
                match stack.last_mut() {
                    Some(top) => top.items.push(RefItem::Elem(node)),
                    None => root = Some(node),
                }
            }
        }
    }
    if !stack.is_empty() {
        return Err("unclosed element".into());
    }
    Ok(RefDoc {
        bom,
        standalone,
        root: root.ok_or("no root element")?,
    })
}

// ---------------------------------------------------------------------------------------------
// writer with syntactic variation that must not change the reading

#[derive(Clone, Copy, Debug)]
pub struct Style {
    pub vary: bool,
    /// allow a literal '>' inside attribute values (legal XML which the crate's tokenizer does not handle)
    pub literal_gt_in_attributes: bool,
}

impl Style {
    pub fn plain() -> Style {
        Style { vary: false, literal_gt_in_attributes: false }
    }
    pub fn varied() -> Style {
        Style { vary: true, literal_gt_in_attributes: false }
    }
}

fn escape(rng: &mut Rng, style: Style, text: &str, quote: Option<char>, out: &mut String) {
    let vary = style.vary;
    for c in text.chars() {
        let must = matches!(c, '<' | '&') || Some(c) == quote;
        let may = matches!(c, '>' | '"' | '\'');
        // a literal '>' inside an attribute value is legal XML, but the crate's tokenizer ends the tag there: keep it rare
        let rare_literal = c == '>' && quote.is_some() && !(style.literal_gt_in_attributes && rng.chance(1, 3));
        if must || rare_literal || (may && (!vary || rng.chance(1, 2))) {
            let form = if vary { rng.below(3) } else { 0 };
            match (c, form) {
                (_, 1) => out.push_str(&format!("&#{};", c as u32)),
                (_, 2) => out.push_str(&format!("&#x{:X};", c as u32)),
                ('<', _) => out.push_str("&lt;"),
                ('>', _) => out.push_str("&gt;"),
                ('&', _) => out.push_str("&amp;"),
                ('"', _) => out.push_str("&quot;"),
                ('\'', _) => out.push_str("&apos;"),
                _ => out.push(c),
            }
        } else if vary && !c.is_ascii() && rng.chance(1, 6) {
            out.push_str(&format!("&#x{:x};", c as u32));
        } else {
            out.push(c);
        }
    }
}

fn render_node(rng: &mut Rng, style: Style, n: &RefNode, depth: usize, element_only_parent: bool, out: &mut String) {
    let vary = style.vary;
    let nl = |out: &mut String, depth: usize| {
        out.push('\n');
        for _ in 0..depth {
            out.push_str("  ");
        }
    };
    if let Some(c) = &n.comment {
        if element_only_parent {
            nl(out, depth);
        }
        if vary && rng.chance(1, 4) {
            // an earlier comment that is not the attached one
            out.push_str("<!-- other -->");
            if element_only_parent {
                nl(out, depth);
            }
        }
        out.push_str("<!--");
        out.push_str(c);
        out.push_str("-->");
    }
    if element_only_parent {
        nl(out, depth);
    }
    out.push('<');
    out.push_str(&n.name);
    for (k, v) in &n.attrs {
        if vary && rng.chance(1, 6) {
            out.push_str("\n   ");
        } else if vary && rng.chance(1, 6) {
            out.push_str("  ");
        } else {
            out.push(' ');
        }
        out.push_str(k);
        out.push('=');
        let q = if vary && rng.chance(1, 2) { '\'' } else { '"' };
        out.push(q);
        escape(rng, style, v, Some(q), out);
        out.push(q);
    }
    if n.items.is_empty() {
        if vary && rng.chance(1, 3) {
            out.push_str("></");
            out.push_str(&n.name);
            out.push('>');
        } else if vary && rng.chance(1, 3) {
            out.push_str(" />");
        } else {
            out.push_str("/>");
        }
        return;
    }
    if vary && rng.chance(1, 8) {
        out.push(' ');
    }
    out.push('>');
    let element_only = n.items.iter().all(|i| matches!(i, RefItem::Elem(_)));
    for item in &n.items {
        match item {
            RefItem::Elem(e) => render_node(rng, style, e, depth + 1, element_only, out),
            RefItem::Text(t, _, _) => escape(rng, style, t, None, out),
        }
    }
    if element_only {
        if vary && rng.chance(1, 10) {
            nl(out, depth + 1);
            out.push_str("<!-- trailing comment, attached to nothing -->");
        }
        nl(out, depth);
    }
    out.push_str("</");
    out.push_str(&n.name);
    out.push('>');
}

pub fn render(rng: &mut Rng, style: Style, doc: &RefDoc) -> Vec<u8> {
    let mut out = String::new();
    if doc.bom {
        out.push('\u{feff}');
    }
    let enc = if style.vary { *rng.pick(&["utf-8", "UTF-8", "utf8", "UTF8"]) } else { "utf-8" };
    out.push_str(&format!("<?xml version=\"1.0\" encoding=\"{enc}\""));
    match doc.standalone {
        Some(true) => out.push_str(" standalone=\"yes\""),
        Some(false) => out.push_str(" standalone=\"no\""),
        None => {}
    }
    out.push_str("?>");
    if style.vary && rng.chance(1, 4) {
        out.push_str("\n<?some-processing instruction?>");
    }
    render_node(rng, style, &doc.root, 0, true, &mut out);
    if style.vary && rng.chance(1, 3) {
        out.push('\n');
    }
    out.into_bytes()
}
